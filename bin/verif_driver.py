"""check <property-id> [--tier quick|thorough] [--replay FILE] [--only JOBSUBSTR] [--keep-going]

Contract-based deductive verification driver (DESIGN.md §2).  For the given property:
  1. extracts the functions under contract from /repo's CURRENT working tree with build/cxx2c (C++ -> C, mechanical),
  2. compiles contracts + harnesses (targets/<t>/harness.c) with goto-cc, instruments with goto-instrument --dfcc where
     a job asks for modular enforcement, and discharges every obligation with cbmc,
  3. classifies obligations, prints KNOWN-FINDING / VIOLATION lines, writes evidence/<id>.json.
Exit codes: 0 all obligations of the property discharged; 1 violation; 2 undecided (extraction abort, timeout, tool error).
"""
import sys, os, re, json, subprocess, time, hashlib, shutil, resource, concurrent.futures as cf

VERIF = os.path.dirname(os.path.dirname(os.path.abspath(__file__)))
REPO = os.environ.get("VERIF_REPO", "/repo")
BUILD = os.path.join(VERIF, "build")
CLANG_RES = "/usr/lib/llvm-14/lib/clang/14.0.6/include"
NCPU = int(os.environ.get("VERIF_JOBS", str(os.cpu_count() or 8)))
DEFAULT_FLAGS = ["--bounds-check", "--pointer-check", "--pointer-overflow-check", "--signed-overflow-check",
                 "--undefined-shift-check", "--div-by-zero-check", "--slice-formula", "--drop-unused-functions"]
JOB_TIMEOUT = {"quick": 600, "thorough": 3600}
MEM_LIMIT = 12 * 1024 ** 3

def log(*a):
    print(*a, file=sys.stderr, flush=True)

def limit():
    resource.setrlimit(resource.RLIMIT_AS, (MEM_LIMIT, MEM_LIMIT))

def run(cmd, timeout=None, cwd=None, env=None, nolimit=False):
    t0 = time.time()
    try:
        p = subprocess.run(cmd, stdout=subprocess.PIPE, stderr=subprocess.PIPE, timeout=timeout, cwd=cwd, preexec_fn=(None if nolimit else limit), env=env)
        return p.returncode, p.stdout.decode("utf-8", "replace"), p.stderr.decode("utf-8", "replace"), time.time() - t0
    except subprocess.TimeoutExpired as e:
        return -9, (e.stdout or b"").decode("utf-8", "replace"), "TIMEOUT", time.time() - t0

# ------------------------------------------------------------------------------------------------ targets / jobs
def parse_jobs(text):
    """mini language inside /*@jobs ... @*/ : nested `for V in a b c:` blocks and `job k=v ...` lines, {V} substitution"""
    m = re.search(r"/\*@jobs\n(.*?)@\*/", text, re.S)
    if not m:
        return []
    lines = []
    for l in m.group(1).split("\n"):
        if l.strip() and not l.strip().startswith("#"):
            lines.append((len(l) - len(l.lstrip()), l.strip()))
    jobs = []
    def block(lo, hi, env):
        i = lo
        while i < hi:
            ind, s = lines[i]
            fm = re.match(r"for (\w+) in (.*):$", s)
            if fm:
                j = i + 1
                while j < hi and lines[j][0] > ind:
                    j += 1
                for val in fm.group(2).split():
                    e2 = dict(env); e2[fm.group(1)] = val
                    block(i + 1, j, e2)
                i = j
            elif s.startswith("job "):
                d = {}
                for kv in s[4:].split():
                    k, _, v = kv.partition("=")
                    for a_, b_ in env.items():
                        v = v.replace("{" + a_ + "}", b_)
                    d[k] = v
                jobs.append(d); i += 1
            else:
                raise SystemExit("bad @jobs line: " + s)
    block(0, len(lines), {})
    return jobs

def load_targets():
    tdir = os.path.join(VERIF, "targets")
    out = {}
    for name in sorted(os.listdir(tdir)):
        cfgp = os.path.join(tdir, name, "target.json")
        if not os.path.exists(cfgp):
            continue
        cfg = json.load(open(cfgp))
        cfg["name"] = name
        cfg["dir"] = os.path.join(tdir, name)
        jobs = []
        for h in cfg.get("harnesses", ["harness.c"]):
            txt = open(os.path.join(cfg["dir"], h)).read()
            for j in parse_jobs(txt):
                j["harness"] = h
                j["target"] = name
                j["props"] = j.get("props", "").split(",")
                j["id"] = name + "/" + j["entry"]
                jobs.append(j)
        cfg["jobs"] = jobs
        out[name] = cfg
    return out

def repo_tree_hash():
    h = hashlib.sha256()
    for root in ("include", "src"):
        for dp, dn, fn in os.walk(os.path.join(REPO, root)):
            dn.sort()
            for f in sorted(fn):
                p = os.path.join(dp, f)
                h.update(p.encode()); h.update(open(p, "rb").read())
    return h.hexdigest()[:16]

def extract(cfg):
    """run cxx2c for a target; returns (ok, message)"""
    bdir = os.path.join(BUILD, cfg["name"])
    shutil.rmtree(bdir, ignore_errors=True)
    os.makedirs(bdir)
    if cfg.get("native_only"):
        return True, "", 0.0
    cmd = [os.path.join(BUILD, "cxx2c"), os.path.join(cfg["dir"], cfg.get("tu", "tu.cpp")), "-o", os.path.join(bdir, "gen")]
    for t in cfg["targets"]:
        cmd.append("--target=" + t)
    for o in cfg.get("outline", []):
        cmd.append("--outline=" + o)
    for a in cfg.get("abstract", []):
        cmd.append("--abstract=" + a)
    for a in cfg.get("rec_stub", []):
        cmd.append("--rec-stub=" + a)
    if cfg.get("allow_dtor_skip"):
        cmd.append("--allow-dtor-skip")
    if cfg.get("alloc_raises"):
        cmd.append("--alloc-raises")
    cmd += ["--", "-std=c++17", "-I" + REPO + "/include", "-I" + REPO + "/src", "-I" + CLANG_RES, "-I" + VERIF, "-w"] + cfg.get("cxxflags", [])
    rc, out, err, dt = run(cmd, timeout=600)
    if rc != 0:
        return False, "cxx2c failed (rc=%d): %s" % (rc, (err or out).strip()[-1500:]), dt
    return True, "", dt

def compile_harness(cfg, harness, defs=()):
    bdir = os.path.join(BUILD, cfg["name"])
    tag = hashlib.md5((harness + " ".join(defs)).encode()).hexdigest()[:8]
    gb = os.path.join(bdir, os.path.splitext(harness)[0] + "-" + tag + ".gb")
    if os.path.exists(gb):
        return True, gb, ""
    cmd = ["goto-cc", "-I" + VERIF, "-I" + bdir, "-I" + cfg["dir"], os.path.join(cfg["dir"], harness), "-o", gb] + ["-D" + d for d in defs]
    rc, out, err, dt = run(cmd, timeout=600)
    if rc != 0 or not os.path.exists(gb):
        return False, gb, (out + err)[-3000:]
    return True, gb, out + err

SAFETY_CLASSES = ("pointer_dereference", "array_bounds", "overflow", "pointer_arithmetic", "undefined-shift", "division-by-zero",
                  "pointer", "unwind", "pointer_primitives", "NaN", "conversion", "memory-leak", "precondition_instance", "enum-range", "bounds")

def classify(ob, job):
    """-> (klass, props)  klass in contract|safety|model|canary|kf|internal"""
    desc = ob.get("description", ""); name = ob.get("property", "")
    loc = ob.get("sourceLocation", {}) or {}
    f = loc.get("file", "")
    if desc.startswith("CANARY"):
        return "canary", []
    for kv in (job.get("kfmap", "") or "").split(","):       # kfmap=<description prefix>:<KF-id> : generated obligations that are a recorded finding
        if ":" in kv:
            pref, kid = kv.split(":", 1)
            if desc.startswith(pref):
                ob["description"] = desc + " [" + kid + "]"
                return "kf", (["C20", "C02"] if pref == "noexcept_escape" else job["props"])
    m = re.match(r"((?:C\d\d,?)+): ", desc)
    if m:
        props = m.group(1).split(",")
        if "[KF-" in desc:
            return "kf", props
        return "contract", props
    if desc.startswith("MODEL:"):
        return "model", ["C02"]
    if desc.startswith("noexcept_escape"):
        return "contract", ["C20", "C02"]
    if desc.startswith("source_assert") or desc.startswith("source_unreachable"):
        return "contract", ["C02"]
    # contract instrumentation obligations of goto-instrument --dfcc
    if re.search(r"Check (ensures|requires|that .* is assignable|loop invariant|variant|invariant|decreases)", desc, re.I) or re.search(r"loop invariant|decreases clause|loop variant|Check step was unwound", desc, re.I) or \
       re.search(r"(postcondition|precondition|assigns|loop_invariant|loop_decreases|loop_assigns|loop_step_unwinding)", name):
        if re.search(r"is assignable", desc) and not os.path.basename(f).startswith("gen."):
            return "internal", []      # a ghost variable of the harness is missing from a loop frame: a specification gap, never a violation
        return "contract", [p for p in job["props"] if p not in ("C02",)] or job["props"]
    if ".overflow." in name and "type conversion" in desc:
        # --conversion-check: only float -> integer conversions are undefined behaviour ([conv.fpint]); integer narrowing is
        # implementation-defined (modular on this ABI) and is what the compare-back idiom intends
        if "float to" in desc or "double to" in desc or "floatbv" in desc:
            return ("safety", ["C02"]) if os.path.basename(f).startswith("gen.") else ("internal", [])
        return "ignored", []
    if "arithmetic overflow on signed shl" in desc:
        # CBMC applies C11 6.5.7p4 (UB when the result is not representable in the signed type); C++17 [expr.shift]/2 defines the
        # result whenever E1 is non-negative and E1*2^E2 fits the corresponding unsigned type. Negative E1 and oversized shift
        # distances are still checked by --undefined-shift-check. Reported, not an obligation.
        return "ignored", []
    base = os.path.basename(f)
    if base.startswith("gen.") or "/models/" in f or base in ("sink.h", "sv.h"):
        if "unwind" in name:
            return "internal", []      # a loop exceeded its stated unwinding bound / has no loop contract: not decided, never a violation
        return "safety", ["C02"]
    return "internal", []

def parse_cbmc_json(out):
    try:
        data = json.loads(out)
    except Exception:
        # cbmc may print trailing garbage; try to locate the array
        i = out.find("["); data = json.loads(out[i:])
    res = None; msgs = []
    for el in data:
        if isinstance(el, dict):
            if "result" in el:
                res = el["result"]
            if el.get("messageType") in ("ERROR", "WARNING"):
                msgs.append(el.get("messageText", ""))
            if "cProverStatus" in el:
                pass
    return res, msgs

def run_job(cfg, job, tier, want_trace=False, only_property=None):
    """returns dict(status=ok|fail|undecided, obligations=[...], solver_s, cmd, note)"""
    bdir = os.path.join(BUILD, cfg["name"])
    defs = tuple(d for d in job.get("defs", "").split(",") if d)
    mode = job.get("mode", "direct")
    r = {"job": job["id"], "mode": mode, "obligations": [], "solver_s": 0.0, "status": "undecided", "note": "", "backend": "cbmc 6.11 / MiniSat (SAT)"}
    timeout = int(job.get("timeout", JOB_TIMEOUT[tier]))
    if mode == "native":
        return run_job_native(cfg, job, r, tier)
    if mode == "inventory":
        return run_job_inventory(cfg, job, r)
    if mode == "direct" and job.get("loops"):
        # direct harness + loop contracts: needs the entry point at compile time, then goto-instrument --apply-loop-contracts
        tag = hashlib.md5((job["id"] + " ".join(defs)).encode()).hexdigest()[:8]
        a = os.path.join(bdir, "lc-" + tag + "-a.gb"); b = os.path.join(bdir, "lc-" + tag + "-b.gb")
        cmd = ["goto-cc", "--function", job["entry"], "-I" + VERIF, "-I" + bdir, "-I" + cfg["dir"], os.path.join(cfg["dir"], job["harness"]), "-o", a] + ["-D" + d for d in defs]
        rc, out, err, dt = run(cmd, timeout=600)
        if rc != 0:
            r["note"] = "goto-cc failed: " + (out + err)[-3000:]; return r
        rc, out, err, dt = run(["goto-instrument", "--apply-loop-contracts", a, b], timeout=900)
        if rc != 0:
            r["note"] = "goto-instrument failed: " + (out + err)[-3000:]; return r
        binary = b; fn_args = []
    elif mode == "direct":
        ok, gb, msg = compile_harness(cfg, job["harness"], defs)
        if not ok:
            r["note"] = "goto-cc failed: " + msg; return r
        binary = gb; fn_args = ["--function", job["entry"]]
    else:
        # dfcc: compile with the entry point, then instrument
        tag = hashlib.md5((job["id"] + " ".join(defs)).encode()).hexdigest()[:8]
        a = os.path.join(bdir, "dfcc-" + tag + "-a.gb"); b = os.path.join(bdir, "dfcc-" + tag + "-b.gb")
        cmd = ["goto-cc", "--function", job["entry"], "-I" + VERIF, "-I" + bdir, "-I" + cfg["dir"], os.path.join(cfg["dir"], job["harness"]), "-o", a] + ["-D" + d for d in defs]
        rc, out, err, dt = run(cmd, timeout=600)
        if rc != 0:
            r["note"] = "goto-cc failed: " + (out + err)[-3000:]; return r
        cmd = ["goto-instrument", "--dfcc", job["entry"]]
        for e in job.get("enforce", "").split(","):
            if e:
                cmd += [("--enforce-contract-rec" if job.get("rec") else "--enforce-contract"), e]
        for e in job.get("replace", "").split(","):
            if e:
                cmd += ["--replace-call-with-contract", e]
        if job.get("loops"):
            cmd += ["--apply-loop-contracts"]
        cmd += [a, b]
        rc, out, err, dt = run(cmd, timeout=900)
        if rc != 0:
            r["note"] = "goto-instrument failed: " + (out + err)[-3000:]; return r
        r["instrument_s"] = dt
        binary = b; fn_args = []
    flags = list(DEFAULT_FLAGS)
    if job.get("unwind"):
        flags += ["--unwind", job["unwind"], "--unwinding-assertions"]
    if job.get("objbits"):
        flags += ["--object-bits", job["objbits"]]
    for fl in job.get("flags", "").split(","):
        if fl:
            flags.append(fl)
    for fl in job.get("noflags", "").split(","):
        if fl and fl in flags:
            flags.remove(fl)
    if job.get("backend") == "cvc5int" and not want_trace:
        return run_job_cvc5int(cfg, job, r, binary, fn_args, flags, timeout)
    cmd = ["cbmc", binary] + fn_args + flags + ["--json-ui"]
    if want_trace:
        cmd += ["--trace"]
        if only_property:
            cmd += ["--property", only_property]
    r["cmd"] = " ".join(cmd)
    rc, out, err, dt = run(cmd, timeout=timeout)
    r["solver_s"] = round(dt, 2)
    if rc == -9:
        if not want_trace:
            return run_job_split(cfg, job, r, binary, fn_args, flags, "cbmc timeout after %ds" % timeout)
        r["note"] = "cbmc timeout after %ds" % timeout; return r
    try:
        res, msgs = parse_cbmc_json(out)
    except Exception as e:
        r["note"] = "cannot parse cbmc output (rc=%d): %s %s" % (rc, out[-500:], err[-500:]); return r
    if not want_trace and res is not None and res and any(o.get("status") == "ERROR" for o in res):
        return run_job_split(cfg, job, r, binary, fn_args, flags, "cbmc ran out of resources (obligations with status ERROR)")
    nobody = [m for m in msgs if "no body for function" in m or "no body for callee" in m]
    allowed = set(job.get("nobody", "").split(","))
    bad = []
    for m in nobody:
        fn = m.split()[-1].strip("'\"")
        if fn.startswith("nondet_") or fn in allowed:
            continue
        bad.append(fn)
    if bad:
        r["note"] = "functions without body or contract (model missing): " + ", ".join(sorted(set(bad))); return r
    if any("ignoring" in m and ("forall" in m or "exists" in m) for m in msgs):
        r["note"] = "solver ignored a quantifier"; return r
    if res is None:
        r["note"] = "cbmc produced no result (rc=%d): %s" % (rc, (" | ".join(msgs))[-1500:] + err[-500:]); return r
    for ob in res:
        klass, props = classify(ob, job)
        o = {"name": ob.get("property"), "desc": ob.get("description"), "status": ob.get("status"), "class": klass, "props": props,
             "loc": "%s:%s" % ((ob.get("sourceLocation") or {}).get("file", ""), (ob.get("sourceLocation") or {}).get("line", ""))}
        if want_trace and ob.get("trace"):
            o["trace"] = ob["trace"]
        r["obligations"].append(o)
    r["status"] = "done"
    return r

import threading
NATIVE_BUILD_LOCK = threading.Lock()

def run_job_split(cfg, job, r, binary, fn_args, flags, why):
    """Fallback when the one-query run does not finish: every CONTRACT obligation (tagged with a property id) and the canary is decided by its own
    sliced query (--property), each under its own time limit.  Obligations that still do not finish, and all untagged safety obligations, stay
    undecided (the job can therefore report a violation, but never a pass)."""
    rc, out, err, dt = run(["cbmc", binary] + fn_args + flags + ["--show-properties", "--json-ui"], timeout=600)
    try:
        data = json.loads(out); plist = None
        for el in data:
            if isinstance(el, dict) and "properties" in el: plist = el["properties"]
    except Exception:
        plist = None
    if not plist:
        r["note"] = why + "; could not list the obligations for the per-obligation fallback"; return r
    sel = [p for p in plist if re.match(r"((?:C\d\d,?)+): |CANARY", p.get("description", ""))]
    per = int(job.get("qtimeout", 240)); t0 = time.time(); undec = 0
    def one(p):
        rc1, out1, err1, dt1 = run(["cbmc", binary] + fn_args + flags + ["--property", p["name"], "--json-ui"], timeout=per)
        st = "TIMEOUT"
        if rc1 != -9:
            try:
                res1, _ = parse_cbmc_json(out1)
                for o in res1 or []:
                    if o.get("property") == p["name"]: st = o.get("status")
            except Exception:
                st = "ERROR"
        return p, st
    with cf.ThreadPoolExecutor(max_workers=4) as ex:
        outs = list(ex.map(one, sel))
    for p, st in outs:
        ob = {"property": p["name"], "description": p.get("description", ""), "sourceLocation": p.get("sourceLocation", {})}
        klass, props = classify(ob, job)
        if st not in ("SUCCESS", "FAILURE"): undec += 1
        r["obligations"].append({"name": p["name"], "desc": ob["description"], "status": st, "class": klass, "props": props,
                                 "loc": "%s:%s" % ((p.get("sourceLocation") or {}).get("file", ""), (p.get("sourceLocation") or {}).get("line", ""))})
    r["obligations"].append({"name": job["entry"] + ".split-fallback", "desc": "safety obligations of this job were not decided (%s; per-obligation fallback decided %d of %d contract obligations)" % (why, len(sel) - undec, len(sel)), "status": "TIMEOUT", "class": "safety", "props": ["C02"], "loc": ""})
    r["solver_s"] = round(time.time() - t0, 2); r["backend"] += " (per-obligation fallback: " + why + ")"; r["status"] = "done"
    return r

def run_job_native(cfg, job, r, tier):
    """Bounded stand-in: the contract is compiled as plain C++ next to the REAL function and evaluated natively over a stated finite range.
    Never counted as proved (job attribute bounded=... is mandatory).  Output protocol of the program:
       RESULT <name> evaluations=<n> failures=<k> range=<text>      and for failures      FAIL <name> <input description>"""
    r["backend"] = "native exhaustive evaluation (g++ -O2) of the contract on the real code"
    if not job.get("bounded"):
        r["note"] = "native job without a stated bound"; return r
    bdir = os.path.join(BUILD, cfg["name"]); os.makedirs(bdir, exist_ok=True)
    src = os.path.join(cfg["dir"], job.get("src", "native.cpp")); exe = os.path.join(bdir, "native_" + os.path.splitext(os.path.basename(src))[0])
    with NATIVE_BUILD_LOCK:
        stamp = exe + ".ok." + repo_tree_hash() + "." + hashlib.md5(open(src, "rb").read()).hexdigest()[:8]
        if not os.path.exists(stamp):
            cmd = ["g++", "-std=c++17", "-O2", "-w", "-I" + REPO + "/include", "-I" + REPO + "/src", "-I" + VERIF, src, "-o", exe]
            rc, out, err, dt = run(cmd, timeout=1200, nolimit=True)
            if rc != 0:
                r["note"] = "native build failed: " + (out + err)[-2000:]; return r
            open(stamp, "w").write("")
    rc, out, err, dt = run([exe, job["entry"], tier], timeout=int(job.get("timeout", JOB_TIMEOUT[tier])), nolimit=True)
    r["solver_s"] = round(dt, 2); r["cmd"] = exe + " " + job["entry"] + " " + tier
    if rc == -9:
        r["note"] = "native run timeout"; return r
    found = False
    for line in out.split("\n"):
        m = re.match(r"RESULT (\S+) evaluations=(\d+) failures=(\d+) range=(.*)", line)
        if m:
            found = True
            fails = [l for l in out.split("\n") if l.startswith("FAIL " + m.group(1) + " ")][:3]
            desc = "%s: %s [bounded: %s evaluations over %s]" % (",".join(job["props"]), job.get("desc", m.group(1)).replace("_", " "), m.group(2), m.group(4))
            if job.get("kf"): desc += " [%s]" % job["kf"]
            r["obligations"].append({"name": job["entry"] + "." + m.group(1), "desc": desc, "status": "SUCCESS" if m.group(3) == "0" else "FAILURE", "class": "kf" if job.get("kf") else "contract", "props": job["props"],
                                     "loc": src, "native_fail": fails, "evaluations": int(m.group(2))})
    if not found:
        r["note"] = "native program produced no RESULT line (rc=%d): %s" % (rc, (out + err)[-500:]); return r
    r["status"] = "done"
    return r

def run_job_inventory(cfg, job, r):
    """C19 frame facts from the AST of /repo's current tree (cxx2c --inventory): every variable with static storage duration declared in
    repository files and every access to a mutable one, classified read / write / escape.  One obligation per mutable static object
    (all non-read accesses come from its allow-listed initialisation functions) and one per function-local static (immutable)."""
    r["backend"] = "cxx2c --inventory (clang-14 AST of the current tree): static-storage inventory + access classification"
    bdir = os.path.join(BUILD, cfg["name"]); os.makedirs(bdir, exist_ok=True)
    allow = json.load(open(os.path.join(cfg["dir"], "allow.json")))
    statics = {}; accesses = []; t0 = time.time()
    for tu in cfg["inventory_tus"]:
        pre = os.path.join(bdir, "inv_" + os.path.splitext(tu)[0])
        cmd = [os.path.join(BUILD, "cxx2c"), os.path.join(cfg["dir"], tu), "--inventory", "-o", pre, "--", "-std=c++17", "-I" + REPO + "/include", "-I" + REPO + "/src", "-I" + CLANG_RES, "-w"]
        rc, out, err, dt = run(cmd, timeout=600)
        if rc != 0:
            r["note"] = "inventory of %s failed: %s" % (tu, (out + err)[-800:]); return r
        d = json.load(open(pre + ".json"))
        for sv in d["statics"]: statics[(sv["file"], sv["line"], sv["name"])] = sv
        accesses += d["accesses"]
    r["solver_s"] = round(time.time() - t0, 2); r["cmd"] = "build/cxx2c <targets/statics/tu_*.cpp> --inventory"
    props = job["props"]; seen_names = set(sv["name"] for sv in statics.values())
    missing = [n for n in allow["must_see"] if n not in seen_names]
    r["obligations"].append({"name": "statics.canary", "desc": "CANARY: the inventory sees the statics known to exist (%s)" % ", ".join(allow["must_see"]), "status": "SUCCESS" if missing else "FAILURE", "class": "canary", "props": [], "loc": cfg["dir"]})
    amap = {(a["var"], a["file"]): a for a in allow["mutable_statics"]}
    for (f, line, name), sv in sorted(statics.items()):
        rel = os.path.relpath(os.path.realpath(f), REPO); oname = "statics.%s:%d.%s" % (rel, line, name)
        if sv["thread_local"] or sv.get("sync_type"):
            continue
        if sv["const"]:
            if sv["kind"] == "static-local":
                r["obligations"].append({"name": oname, "desc": "%s: function-local static '%s' (%s:%d) is const: initialised once under the thread-safe static-initialisation guard ([stmt.dcl]/4), then read-only" % (",".join(props), name, rel, line),
                                         "status": "SUCCESS", "class": "contract", "props": props, "loc": "%s:%d" % (rel, line)})
            continue
        acc = [a for a in accesses if a["var"] == name and a["var_file"] == f and a["var_line"] == line and a["kind"] != "read"]
        ent = amap.get((name, rel)); bad = [a for a in acc if not ent or a["function"] not in ent["writers"]]
        writes = [a for a in bad if a["kind"] == "write"]
        if not bad:
            st = "SUCCESS"; extra = "writers: %s - %s" % (", ".join(ent["writers"]) or "none", ent["why"]) if ent else "never written, never escapes"
        elif writes or not ent:
            st = "FAILURE"; a = (writes or bad)[0]; extra = "mutable static-storage object shared by all threads is %s in %s (%s:%d) without synchronisation" % ({"write": "written", "escape": "handed out by non-const reference/pointer", "other": "used in an unclassified way"}[a["kind"]], a["function"], os.path.relpath(os.path.realpath(a["file"]), REPO), a["line"])
        else:
            st = "UNKNOWN"; a = bad[0]; extra = "access in %s (%s:%d) is '%s': cannot be classified as read-only" % (a["function"], a["file"], a["line"], a["kind"])
        r["obligations"].append({"name": oname, "desc": "%s: no serialization code writes the mutable static '%s' (%s:%d) after static initialisation [%s]" % (",".join(props), name, rel, line, extra),
                                 "status": st, "class": "contract", "props": props, "loc": "%s:%d" % (rel, line), "native_fail": [extra] if st == "FAILURE" else []})
    r["status"] = "done"
    return r

def run_job_cvc5int(cfg, job, r, binary, fn_args, flags, timeout):
    """SMT route for arithmetic chains: CBMC generates the verification conditions (bit-vector SMT-LIB2), cvc5 decides them after
    translating bit-vectors to integer arithmetic (--solve-bv-as-int=sum).  One query for all obligations; on sat/unknown one query each."""
    r["backend"] = "cbmc 6.11 VC generation (--smt2) + cvc5 1.0 --solve-bv-as-int=sum"
    bdir = os.path.join(BUILD, cfg["name"]); tag = hashlib.md5(job["id"].encode()).hexdigest()[:8]
    base = ["cbmc", binary] + fn_args + flags
    r["cmd"] = " ".join(base) + " --property <each> --smt2 --outfile vc.smt2 ; cvc5 --solve-bv-as-int=sum vc.smt2"
    rc, out, err, dt = run(base + ["--show-properties", "--json-ui"], timeout=600)
    try:
        data = json.loads(out)
    except Exception:
        r["note"] = "cannot list properties: " + (out + err)[-800:]; return r
    props = None
    for el in data:
        if isinstance(el, dict) and "properties" in el:
            props = el["properties"]
    if props is None:
        r["note"] = "no property list from cbmc"; return r
    t0 = time.time()
    def query(names, suffix):
        f = os.path.join(bdir, "vc-%s-%s.smt2" % (tag, suffix))
        cmd = list(base)
        for n in names:
            cmd += ["--property", n]
        if os.path.exists(f): os.remove(f)
        rc, out, err, dt = run(cmd + ["--smt2", "--outfile", f], timeout=600)
        if "VERIFICATION SUCCESSFUL" in out:
            return "unsat"      # all selected obligations were discharged by CBMC's own simplification, no VC left
        if not os.path.exists(f):
            return "error:" + (out + err)[-300:]
        if "(check-sat" not in open(f).read():
            return "unsat"      # CBMC generated no verification condition for these obligations (discharged by simplification)
        rc, out, err, dt = run(["cvc5", "--solve-bv-as-int=sum", f], timeout=int(job.get("qtimeout", 120)))
        first = (out.strip().split("\n") or [""])[0].strip()
        if rc == -9:
            return "timeout"
        return first if first in ("sat", "unsat") else "unknown:" + (out + err)[:200]
    canaries = [p for p in props if p.get("description", "").startswith("CANARY")]
    others = [p for p in props if not p.get("description", "").startswith("CANARY")]
    verdict = {}; vcfile = {}
    if others:
        v = query([p["name"] for p in others], "all")
        if v == "unsat":
            for p in others: verdict[p["name"]] = "SUCCESS"
        else:
            for i, p in enumerate(others):
                v1 = query([p["name"]], "p%d" % i)
                if v1 == "unsat": verdict[p["name"]] = "SUCCESS"
                elif v1 == "sat": verdict[p["name"]] = "FAILURE"; vcfile[p["name"]] = os.path.join(bdir, "vc-%s-p%d.smt2" % (tag, i))
                else:
                    r["note"] = "cvc5 could not decide %s: %s" % (p["name"], v1); r["solver_s"] = round(time.time() - t0, 2); return r
    for i, p in enumerate(canaries):
        v1 = query([p["name"]], "c%d" % i)
        verdict[p["name"]] = "FAILURE" if v1 == "sat" else ("SUCCESS" if v1 == "unsat" else "UNKNOWN")
    r["solver_s"] = round(time.time() - t0, 2)
    for p in props:
        ob = {"property": p["name"], "description": p.get("description", ""), "status": verdict.get(p["name"], "UNKNOWN"), "sourceLocation": p.get("sourceLocation", {})}
        klass, pr = classify(ob, job)
        r["obligations"].append({"name": ob["property"], "desc": ob["description"], "status": ob["status"], "class": klass, "props": pr, "vcfile": vcfile.get(p["name"]),
                                 "loc": "%s:%s" % ((ob.get("sourceLocation") or {}).get("file", ""), (ob.get("sourceLocation") or {}).get("line", ""))})
    r["status"] = "done"
    return r

def cvc5_model_inputs(vcfile, entry):
    """counterexample of a failed VC: ask cvc5 for a model and read the harness' local variables back"""
    txt = open(vcfile).read()
    f2 = vcfile + ".model.smt2"
    open(f2, "w").write(txt.replace("(exit)", "") + "\n(get-model)\n")
    rc, out, err, dt = run(["cvc5", "--solve-bv-as-int=sum", "--produce-models", f2], timeout=300)
    vals = {}
    for m in re.finditer(r"\(define-fun \|([^|]*)\| \(\) \(_ BitVec (\d+)\) #([bx])([0-9a-fA-F]+)\)", out):
        sym, width, base, digits = m.group(1), int(m.group(2)), m.group(3), m.group(4)
        mm = re.match(r"(h_\w+)::1::([\w.]+)!0@1#(\d+)$", sym)
        if not mm:
            continue
        name, gen = mm.group(2), int(mm.group(3))
        bits = digits if base == "b" else bin(int(digits, 16))[2:].zfill(width)
        if name not in vals or gen < vals[name][0]:
            if gen >= 2:
                vals[name] = (gen, bits, width)
    res = {}
    for name, (gen, bits, width) in vals.items():
        v = int(bits, 2)
        sv = v - (1 << width) if bits[0] == "1" else v
        res[name] = {"data": "%d (signed %d)" % (v, sv), "binary": bits, "width": width}
    return res

# ------------------------------------------------------------------------------------------------ property run
EXTRACTION_DROPPED = [
    "exceptions lowered to ghost flag __verif_exc (+ class id, first enum ctor argument); messages dropped",
    "destructors of library (std::) objects are no-ops; repository destructors of locals: extraction aborts unless listed under dtor_skipped",
    "allocation is infallible and unbounded in the models",
    "virtual calls through interfaces become contract-only callees",
    "only the template instantiations named in targets/*/tu.cpp are verified",
    "library bodies (std::string, string_view, streams, charconv, ...) are C models / assumed contracts under /verif/models",
    "unaligned loads through reinterpret_cast are treated as byte-wise loads (x86-64)",
    "loop bodies named in target.json 'outline' are emitted as separate step functions (no statement added/removed/reordered)",
    "the translator cxx2c itself is trusted (mitigated by native replay of counterexamples)",
]
GLOBAL_ASSUMPTIONS = [
    "ISO C semantics of CBMC's bit-vector encoding (/, %, shifts); x86-64 LP64 little-endian ABI, char signed, wchar_t 32-bit",
    "clang 14 (extraction) and g++ 12 (tests) instantiate the same code",
]

def load_known_findings():
    p = os.path.join(VERIF, "known_findings.json")
    if not os.path.exists(p):
        return {}
    return {f["id"]: f for f in json.load(open(p)).get("findings", [])}

def relevant(ob, prop):
    if ob["class"] in ("canary", "internal", "ignored"):
        return False
    return prop in ob["props"]

def trace_inputs(ob, entry):
    vals = {}
    for st in ob.get("trace", []) or []:
        if st.get("stepType") != "assignment":
            continue
        loc = st.get("sourceLocation") or {}
        fn = loc.get("function", ""); lhs = st.get("lhs", "")
        if not (fn.startswith("h_") or "/targets/" in loc.get("file", "")) or not lhs or lhs.startswith("__CPROVER") or "return_value" in lhs and "nondet" not in lhs:
            continue
        v = st.get("value", {})
        if "binary" in v or "data" in v:
            vals[lhs] = {"data": str(v.get("data", "")), "binary": v.get("binary", ""), "width": v.get("width", 0)}
    return vals

def native_replay(cfg, rfile):
    """build and run the target's native replay driver on the replay file; returns (status, output)"""
    src = os.path.join(cfg["dir"], "replay.cpp")
    if not os.path.exists(src):
        return "no-driver", ""
    exe = os.path.join(BUILD, cfg["name"], "replay_native")
    os.makedirs(os.path.dirname(exe), exist_ok=True)
    cmd = ["g++", "-std=c++17", "-O0", "-g", "-fsanitize=address,undefined,float-cast-overflow", "-fno-sanitize=alignment", "-fno-sanitize-recover=undefined", "-w",
           "-I" + REPO + "/include", "-I" + REPO + "/src", "-I" + VERIF, src, "-o", exe]
    rc, out, err, dt = run(cmd, timeout=900)
    if rc != 0:
        return "build-failed", (out + err)[-2000:]
    env = dict(os.environ); env["ASAN_OPTIONS"] = "detect_leaks=0"; env["UBSAN_OPTIONS"] = "print_stacktrace=0"
    rc, out, err, dt = run([exe, rfile], timeout=300, nolimit=True, env=env)   # ASan cannot reserve its shadow under RLIMIT_AS
    txt = (out + err)[-4000:]
    if "REPRODUCED" in out and "NOT-REPRODUCED" not in out:
        return "reproduced", txt
    if re.search(r"runtime error:|ERROR: AddressSanitizer: (?!failed)", err):
        return "reproduced", txt
    return "not-reproduced", txt

def make_replay(cfg, job, ob, prop, tier):
    """re-run the failing job with --trace for this obligation, write the replay file, try the native replay"""
    rdir = os.path.join(VERIF, "replay", "out", prop)
    os.makedirs(rdir, exist_ok=True)
    hid = hashlib.md5((job["id"] + (ob["name"] or "") + (ob["desc"] or "")).encode()).hexdigest()[:8]
    rfile = os.path.join(rdir, "%s-%s-%s.json" % (cfg["name"], job["entry"], hid))
    if job.get("mode") in ("native", "inventory"):
        inv = job.get("mode") == "inventory"
        doc = {"property": prop, "target": cfg["name"], "job": job["id"], "entry": job["entry"], "obligation": ob["name"], "description": ob["desc"], "location": ob["loc"],
               "inputs": {}, "failing_inputs_on_real_code": ob.get("native_fail", []), "checker_cmd": "static inventory of the current tree (no schedule is constructed)" if inv else "native exhaustive evaluation on the real code",
               "confirmed": not inv, "native_replay": "not applicable: the obligation is a frame fact, the racing schedule is not constructed" if inv else "reproduced"}
        json.dump(doc, open(rfile, "w"), indent=1)
        return rfile, not inv
    inputs = {}; cbmc_out = ""; tr = {}
    # counterexample extraction: first under the target's "small counterexample" define (materialisable inputs), then unconstrained
    attempts = []
    if job.get("mode", "direct") == "direct":
        j2 = dict(job); j2["defs"] = ",".join([d for d in job.get("defs", "").split(",") if d] + ["VERIF_SMALL_CE"]); attempts.append(j2)
    attempts.append(job)
    if job.get("backend") == "cvc5int" and ob.get("vcfile") and os.path.exists(ob["vcfile"]):
        inputs = cvc5_model_inputs(ob["vcfile"], job["entry"]); attempts = [] if inputs else attempts
        tr = {"cmd": "cvc5 --solve-bv-as-int=sum --produce-models " + ob["vcfile"]}
    for jx in attempts:
        tr = run_job(cfg, jx, tier, want_trace=True, only_property=ob["name"])
        cbmc_out = tr.get("note", "")
        for o in tr.get("obligations", []):
            if o["name"] == ob["name"] and o.get("trace") and o["status"] == "FAILURE":
                inputs = trace_inputs(o, job["entry"])
        if inputs:
            break
    doc = {"property": prop, "target": cfg["name"], "job": job["id"], "entry": job["entry"], "obligation": ob["name"], "description": ob["desc"],
           "location": ob["loc"], "inputs": inputs, "checker_cmd": tr.get("cmd", ""), "verifier_output": cbmc_out, "confirmed": False}
    json.dump(doc, open(rfile, "w"), indent=1)
    status, txt = ("no-inputs", "")
    if inputs:
        status, txt = native_replay(cfg, rfile)
    doc["native_replay"] = status; doc["native_output"] = txt; doc["confirmed"] = (status == "reproduced")
    json.dump(doc, open(rfile, "w"), indent=1)
    return rfile, doc["confirmed"]

def do_replay(prop, path):
    doc = json.load(open(path))
    targets = load_targets(); cfg = targets[doc["target"]]
    status, txt = native_replay(cfg, path)
    print(txt)
    print("replay of %s (%s): %s" % (doc["obligation"], doc["description"], status))
    if status == "reproduced":
        print("VIOLATION property=%s replay=%s" % (prop, path)); return 1
    return 0

def write_evidence(prop, tier, level, coverage, assumptions, wall, violations, extra=None):
    ev = {"property_id": prop, "tier": tier, "seed": int(os.environ.get("VERIF_SEED", "0") or 0), "level": level,
          "coverage": coverage, "assumptions": assumptions, "wall_s": round(wall, 2), "violations": violations}
    if extra:
        ev.update(extra)
    os.makedirs(os.path.join(VERIF, "evidence"), exist_ok=True)
    tmp = os.path.join(VERIF, "evidence", prop + ".json.tmp")
    json.dump(ev, open(tmp, "w"), indent=1)
    os.replace(tmp, os.path.join(VERIF, "evidence", prop + ".json"))

def select_jobs(targets, prop, tier, only):
    sel = []
    for cfg in targets.values():
        for j in cfg["jobs"]:
            if j.get("tier") == "thorough" and tier != "thorough":
                continue
            if only and only not in j["id"]:
                continue
            if prop in j["props"] or (prop == "C02" and j.get("safety", "on") != "off"):
                sel.append(j)
    return sel

def main(argv):
    if not argv:
        print(__doc__); return 2
    prop = argv[0]; tier = os.environ.get("VERIF_TIER", "quick"); only = None; replay = None
    i = 1
    while i < len(argv):
        if argv[i] == "--tier": tier = argv[i + 1]; i += 2
        elif argv[i] == "--only": only = argv[i + 1]; i += 2
        elif argv[i] == "--replay": replay = argv[i + 1]; i += 2
        else: i += 1
    if replay:
        return do_replay(prop, replay)
    t0 = time.time()
    rc, out, err, dt = run([os.path.join(VERIF, "tools", "build_cxx2c.sh")], timeout=900)
    if rc != 0:
        log("cannot build cxx2c: " + err[-2000:]); return 2
    targets = load_targets()
    import props_special
    if prop in props_special.SPECIAL:
        return props_special.SPECIAL[prop](sys.modules[__name__], prop, tier, targets, only)
    jobs = select_jobs(targets, prop, tier, only)
    if not jobs:
        log("no jobs registered for property " + prop); return 2
    lvl = "other" if jobs and all(j.get("mode") == "inventory" for j in jobs) else "proof"
    return run_and_report(prop, tier, targets, jobs, t0, level=lvl)

def run_and_report(prop, tier, targets, jobs, t0, extra_cov=None, extra_assumptions=None, level="proof"):
    kf = load_known_findings()
    shutil.rmtree(os.path.join(VERIF, "replay", "out", prop), ignore_errors=True)
    need = sorted({j["target"] for j in jobs})
    undecided = []; ext_s = {}
    with cf.ThreadPoolExecutor(max_workers=NCPU) as ex:
        futs = {ex.submit(extract, targets[t]): t for t in need}
        for f in cf.as_completed(futs):
            ok, msg, dt = f.result(); ext_s[futs[f]] = round(dt, 2)
            if not ok:
                undecided.append({"target": futs[f], "why": msg}); log("UNDECIDED extraction %s: %s" % (futs[f], msg))
    okjobs = [j for j in jobs if not any(u.get("target") == j["target"] for u in undecided)]
    # compile harnesses once per (target, harness, defs) before fanning out
    seen = set()
    for j in okjobs:
        if j.get("mode", "direct") != "direct" or j.get("loops"):
            continue
        key = (j["target"], j["harness"], j.get("defs", ""))
        if key in seen:
            continue
        seen.add(key)
        ok, gb, msg = compile_harness(targets[j["target"]], j["harness"], tuple(d for d in j.get("defs", "").split(",") if d))
        if not ok:
            undecided.append({"target": j["target"], "why": "goto-cc: " + msg}); log("UNDECIDED compile %s: %s" % (j["target"], msg))
    okjobs = [j for j in okjobs if not any(u.get("target") == j["target"] for u in undecided)]
    results = []
    with cf.ThreadPoolExecutor(max_workers=NCPU) as ex:
        futs = {ex.submit(run_job, targets[j["target"]], j, tier): j for j in okjobs}
        for f in cf.as_completed(futs):
            results.append((futs[f], f.result()))
    results.sort(key=lambda x: x[0]["id"])
    n_ob = 0; n_ok = 0; violations = []; known = []; samples = []; canaries = {"expected_fail": 0, "vacuous": []}
    per_job = []; fuc = {}; trusted = set(); other_prop_failures = []; bounded = []; masked = []
    for job, r in results:
        if r["status"] != "done":
            undecided.append({"job": job["id"], "why": r["note"]}); log("UNDECIDED %s: %s" % (job["id"], r["note"])); continue
        jn = 0; jd = 0; has_canary = False
        any_failure = any(o["status"] == "FAILURE" and o["class"] not in ("canary", "ignored") for o in r["obligations"])
        # a call of a function without body or model makes every verdict of the job unreliable (its result is arbitrary): nothing of it is reported
        if any(".no-body." in (o["name"] or "") and o["status"] != "SUCCESS" for o in r["obligations"]):
            miss = sorted(set((o["name"] or "").split(".no-body.")[-1] for o in r["obligations"] if ".no-body." in (o["name"] or "") and o["status"] != "SUCCESS"))
            undecided.append({"job": job["id"], "why": "call of a function without body or contract (model missing): " + ", ".join(miss)}); log("UNDECIDED %s: model missing for %s" % (job["id"], ", ".join(miss))); continue
        for ob in r["obligations"]:
            if ob["status"] not in ("SUCCESS", "FAILURE") and ob["class"] not in ("canary",):
                # CBMC reports UNKNOWN for obligations that follow a failed *fatal* one (e.g. an invalid dereference): undecided here,
                # the failed obligation itself is what gets reported
                if any_failure: masked.append({"job": job["id"], "obligation": ob["name"]})
                else: undecided.append({"job": job["id"], "why": "obligation %s has status %s" % (ob["name"], ob["status"])})
                continue
            if ob["class"] == "canary":
                has_canary = True
                if ob["status"] == "FAILURE": canaries["expected_fail"] += 1
                else: canaries["vacuous"].append(job["id"])
                continue
            if ob["class"] == "ignored":
                continue
            if ".no-body." in (ob["name"] or ""):
                if ob["status"] != "SUCCESS":
                    undecided.append({"job": job["id"], "why": "call of a function without body or contract (model missing): " + ob["name"]})
                continue
            if ob["class"] == "internal":
                if ob["status"] == "FAILURE":
                    undecided.append({"job": job["id"], "why": "harness-internal check failed: %s %s" % (ob["name"], ob["desc"])})
                continue
            if ob["class"] == "kf":
                m = re.search(r"\[(KF-[^\]]+)\]", ob["desc"]); kid = m.group(1) if m else "?"
                if prop in ob["props"]:
                    if ob["status"] == "SUCCESS" and not job.get("bounded"):
                        n_ob += 1; n_ok += 1; jn += 1; jd += 1      # a known-finding obligation that holds (finding fixed / regression guard) is an ordinary discharged obligation
                    if ob["status"] == "FAILURE":
                        ent = kf.get(kid)
                        if ent and ent.get("status") == "open" and (ent.get("property") == prop or prop in ent.get("also_reported_under", [])):
                            known.append({"id": kid, "job": job["id"], "what": ent.get("what", ob["desc"])})
                        else:
                            violations.append((job, ob))
                continue
            if not relevant(ob, prop):
                if ob["status"] == "FAILURE":
                    other_prop_failures.append({"job": job["id"], "obligation": ob["name"], "desc": ob["desc"], "props": ob["props"]})
                continue
            if job.get("bounded"):
                # bounded stand-in: never counted as proved
                if ob["status"] == "FAILURE": violations.append((job, ob))
                continue
            n_ob += 1; jn += 1
            if ob["status"] == "SUCCESS":
                n_ok += 1; jd += 1
                if len(samples) < 12 and ob["class"] == "contract":
                    samples.append({"job": job["id"], "obligation": ob["name"], "text": ob["desc"], "verdict": "SUCCESS"})
            else:
                violations.append((job, ob))
        if job.get("bounded"):
            bounded.append({"job": job["id"], "bound": job["bounded"].replace("_", " "), "solver_s": r["solver_s"], "evaluations": sum(o.get("evaluations", 0) for o in r["obligations"]),
                            "failures": [o["name"] for o in r["obligations"] if o["status"] == "FAILURE"], "backend": r["backend"]})
        if not has_canary and job.get("canary", "on") != "off":
            canaries["vacuous"].append(job["id"] + " (no canary present)")
        per_job.append({"job": job["id"], "mode": {"dfcc": "R1 goto-instrument --dfcc + cbmc", "native": "bounded native stand-in", "inventory": "static inventory (clang AST)"}.get(job.get("mode"), "R2 direct harness + cbmc"), "obligations": jn, "discharged": jd,
                        "solver_s": r["solver_s"], "backend": r["backend"], "unwind": job.get("unwind"), "kf": job.get("kf")})
    for v in canaries["vacuous"]:
        undecided.append({"job": v, "why": "vacuity guard: canary assertion did not fail (precondition unsatisfiable or end unreachable)"})
    # functions under contract + trusted base from the extractor's json
    for t in need:
        p = os.path.join(BUILD, t, "gen.json")
        if os.path.exists(p):
            g = json.load(open(p))
            fuc[t] = [{"c_name": f["c_name"], "signature": f["signature"], "source": "%s:%d-%d" % (os.path.relpath(os.path.realpath(f["file"]), REPO) if f["file"] else "", f["lines"][0], f["lines"][1])} for f in g["functions"] if f["has_body"]]
            for m in g["model_calls"]: trusted.add("model: " + m)
            for m in g["abstract_callees"]: trusted.add("contract-only callee: " + m)
            for m in g["dtor_skipped"]: trusted.add("destructor not emitted: " + m)
        hp = os.path.join(targets[t]["dir"], "harness.c")
        for h in targets[t].get("harnesses", ["harness.c"]):
            txt = open(os.path.join(targets[t]["dir"], h)).read()
            for m in re.finditer(r"__CPROVER_assume\(([^;]*)\);(?:\s*/\*(.*?)\*/)?", txt):
                trusted.add("assume in %s/%s: %s%s" % (t, h, m.group(1)[:120], (" -- " + m.group(2).strip()) if m.group(2) else ""))
        for a in targets[t].get("assumptions", []): trusted.add(a)
    # report
    nviol = 0
    by_id = {}
    for kf_ in known:
        by_id.setdefault(kf_["id"], []).append(kf_)
    for kid, lst in sorted(by_id.items()):
        print("KNOWN-FINDING: property=%s %s [%s; failing obligation in %s]" % (prop, lst[0]["what"], kid, ", ".join(k["job"] for k in lst)))
    vio_out = []
    seen_v = set()
    for job, ob in violations:
        key = (ob["name"], ob["desc"]) if ob["class"] in ("safety", "model") else (job["id"], ob["name"])
        if key in seen_v: continue
        seen_v.add(key); nviol += 1
        rfile, confirmed = make_replay(targets[job["target"]], job, ob, prop, tier)
        line = "VIOLATION property=%s replay=%s" % (prop, rfile)
        log("failed obligation %s in %s: %s (%s)" % (ob["name"], job["id"], ob["desc"], ob["loc"]))
        if not confirmed:
            line += " obligation=%s no-failing-input-found" % ob["name"]
        print(line)
        vio_out.append({"job": job["id"], "obligation": ob["name"], "desc": ob["desc"], "replay": rfile, "confirmed": confirmed})
    wall = time.time() - t0
    cov = {"obligations": n_ob, "discharged": n_ok,
           "checker_cmd": "build/cxx2c (extraction from %s) ; goto-cc ; [goto-instrument --dfcc --enforce-contract ... --apply-loop-contracts] ; cbmc %s --unwind N --unwinding-assertions --json-ui" % (REPO, " ".join(DEFAULT_FLAGS)),
           "trusted_base": sorted(trusted), "samples": samples, "jobs": per_job, "functions_under_contract": fuc,
           "canaries": canaries, "known_findings": known, "undecided": undecided, "bounded": bounded, "other_property_failures": other_prop_failures, "masked_by_fatal_failure": masked,
           "extraction_dropped": EXTRACTION_DROPPED, "extraction_s": ext_s, "repo_tree_hash": repo_tree_hash(), "violations_detail": vio_out,
           "explanation": "every obligation is a CBMC property generated from C code that cxx2c extracted from /repo's working tree in this run; 'discharged' counts those with status SUCCESS"}
    if extra_cov: cov.update(extra_cov)
    write_evidence(prop, tier, level, cov, GLOBAL_ASSUMPTIONS + (extra_assumptions or []), wall, nviol)
    log("%s: %d/%d obligations discharged, %d violations, %d known findings, %d undecided, %.1fs" % (prop, n_ok, n_ob, nviol, len(known), len(undecided), wall))
    if nviol: return 1
    if undecided or n_ob == 0: return 2
    return 0
