NOTES = "Contract-based deductive verification with CBMC on C extracted mechanically (cxx2c) from /repo's working tree on every run. See DESIGN.md."
_T = "cxx2c extraction + CBMC: "
CHECKS = {
 "C06": {"category": "proof",
  "text": "Every CMsgPackStringWriter/CMsgPackStreamWriter method is proved, over its full argument domain (all 2^64 integers, all float bit patterns, all sizes, all (seconds,nanoseconds<1e9)), to append exactly one head that an independent MessagePack reference decoder maps back to the argument, in the smallest format; sizes >= 2^32 raise OutOfRange and emit nothing. Loop-free code, so a single SAT query per method is a complete proof. Two genuine deviations are known findings.",
  "note": "sink model of std::string/std::ostream (append-only, no failure); cxx2c translation; header-count == entries-written of container scopes and user-class field counting are not yet under contract",
  "technique": _T + "full-domain postconditions against an independent MessagePack reference decoder (R2 direct harness, SAT)"},
}
CHECKS["C04"] = {"category": "proof",
  "text": "All 196 instantiations of Convert::Detail::To<S,T> over {bool,char,8..64-bit signed/unsigned,long long,float,double} are proved over their full domain: exact value stored, or nearest float for in-range higher-precision sources, or std::out_of_range with the target bit-identical; float->integral is always invalid_argument. Loop-free, one SAT query per pair = complete proof.",
  "note": "CBMC's IEEE-754 cast semantics is the reference for 'nearest'; long double is outside the extractor's subset; policy wrappers and archive loaders are covered where their targets are listed in the evidence",
  "technique": _T + "full-domain exact-or-reported postconditions with __int128 / bit-level representability oracles (R2 direct harness, SAT)"}
CHECKS["C02"] = {"category": "proof",
  "text": "Every function under contract for any property is also checked by CBMC for memory safety (bounds, pointer validity, pointer arithmetic), signed overflow, shift and division UB, float->integer conversion UB, the standard-library preconditions asserted by the models (string_view index/front/back, isdigit domain, ...), loop termination where a decreases clause is given, unwinding completeness, and 'no exception leaves a noexcept function/destructor'. The property is the conjunction over the functions listed in the evidence; code not under contract is named there as unverified.",
  "note": "per-function, modular: holds for the functions listed under functions_under_contract only; recursion depth / heap proportionality and third-party parsers are not covered",
  "technique": _T + "CBMC safety obligations + model preconditions on every extracted function, all inputs"}
CHECKS["C07"] = {"category": "proof",
  "text": "Every CMsgPackStringReader method is proved against an independent MessagePack reference decoder for a document of symbolic size, symbolic contents and symbolic read position: every legal format width loads the value the specification assigns and consumes exactly the encoding; every truncation raises ParsingException; other families follow the mismatched-types policy. Loop-free once the recursive skipper is replaced by its contract.",
  "note": "SkipValueImpl replaced by contract in the reader proofs; documents up to 2^40 bytes; stream reader and ReadKey dispatch listed in evidence when under contract",
  "technique": _T + "postconditions against an independent reference decoder over a symbolic-size document (R2 direct harness, SAT)"}
CHECKS["C11"] = {"category": "proof",
  "text": "The body of every transcoder's main loop (Utf8::Decode to UTF-16/32, Utf8::Encode from UTF-16/32, Utf16::Decode to UTF-32, Utf16::Encode from UTF-32, UTF-16 copy) is outlined mechanically and proved, for an arbitrary iteration (any remaining length, any prior output), to consume exactly a well-formed sequence and append exactly the standard encoding form of its scalar value with no error counted. The lift to whole strings is the fold of the step (stated meta-lemma).",
  "note": "outer-loop bookkeeping, LE/BE wrappers, Transcode dispatch listed in the evidence when under contract; unit-string model",
  "technique": _T + "per-character step contracts on mechanically outlined loop bodies against Unicode Table 3-7 (R2, SAT, symbolic-length input window)"}
CHECKS["C12"] = {"category": "proof",
  "text": "Same outlined loop bodies, ill-formed half: every ill-formed or truncated sequence is counted once and replaced by exactly one mark (Skip) or fails with InvalidSequence at its start (ThrowError), truncated well-formed prefixes return UnexpectedEnd at the sequence start, nothing ill-formed is propagated, no following well-formed start is swallowed, and all reads stay inside the input (CBMC pointer obligations on a window of exactly the remaining length).",
  "note": "same as C11",
  "technique": _T + "per-character step contracts on mechanically outlined loop bodies, error branch (R2, SAT)"}
CHECKS["C10"] = {"category": "proof",
  "text": "CBinaryStreamReader (every public method + constructor) is proved from an arbitrary well-formed state against an abstract view (stream contents, logical position) that does not mention the 256-byte chunk: each method re-establishes the class invariant and hands out exactly the bytes at the logical position, for every alignment of cursor/block relative to the chunk and every stream length; MsgPack memory and stream writers are proved against the same byte-exact specification. Stream readers of MsgPack/CSV are listed in the evidence when under the same contract.",
  "note": "istream model ([istream.unformatted] rules, stream initially at offset 0, no badbit); buffer contents followed by ghost state updated only by the read/memcpy models; JSON/XML stream paths are inside third-party libraries",
  "technique": _T + "class invariant + abstract-view postconditions on the real CBinaryStreamReader, ghost content tracking (R2, SAT)"}
CHECKS["C14"] = {"category": "proof",
  "text": "Proved over the full 64-bit domain: time_point/duration -> CBinTimestamp gives 0<=ns<=999999999 and sec*1e9+ns equal to the instant exactly, and converting back restores the identical tick count (6 units x time points and durations); every SafeDurationCast/SafeAddDuration instantiation returns the exact value or out_of_range. The calendar text itself (era/day-of-era arithmetic + printing + parsing back) defeats every installed back end and is decided by a BOUNDED native stand-in: every day of years -10400..+20000 for each of the 7 precisions against a day-by-day calendar (listed under 'bounded', not counted as proved).",
  "note": "calendar rendering/parse-back is bounded (stated range); ISO duration text and PrintSecondsFractions digits are not under contract; cvc5 int-blasting trusted",
  "technique": _T + "full-domain arithmetic contracts decided by cvc5 over the integers (VCs from CBMC); bounded native exhaustive stand-in for the calendar text"}
CHECKS["C15"] = {"category": "proof",
  "text": "All 72+ SafeDurationCast instantiations (8 units x 8 units, int64, plus int8/int16/int32/uint64 targets) and 13 SafeAddDuration instantiations are proved over their full domains to return exactly the mathematical value or raise std::out_of_range (never a wrapped or truncated value), and never to refuse a representable exact value. The date-time parts -> time_point arithmetic is attempted in the thorough tier; the grammar of ParseIsoUtc / duration parsing is not under contract yet.",
  "note": "ParseIsoUtc, ParseSecondFractions and the duration grammar (text layer, from_chars) are not covered; cvc5 int-blasting trusted",
  "technique": _T + "exact-or-out_of_range postconditions in __int128, VCs from CBMC decided by cvc5 --solve-bv-as-int"}
CHECKS["C09"] = {"category": "proof",
  "text": "WriteEscapedValue (the RFC 4180 quoting of one field) is proved: step contracts for both loops (stop exactly at DQUOTE/separator/LF/CR; each character appended once, DQUOTE doubled) and a modular function-level proof with loop contracts for every field length (unquoted only if no character needs quoting - arbitrary witness position; quoted = DQUOTE + verbatim prefix + one step per remaining character + DQUOTE). The readers' parsing and the write/read round trip are decided by BOUNDED native stand-ins (all documents up to length 8 over {a , DQUOTE CR LF}, both readers, sequential and by key, against an independent RFC 4180 parser) - listed under 'bounded', not counted as proved.",
  "note": "CSV readers (ParseNextLine/UnescapeValue) are only under the bounded check; encodings/BOM of CSV streams reduce to C13; event-log string model",
  "technique": _T + "step + loop contracts on the real WriteEscapedValue (R2, SAT); bounded native exhaustive stand-in for the readers"}
CHECKS["C13"] = {"category": "proof",
  "text": "DetectEncoding: every BOM selects its encoding and offset for every text length (UTF-32LE before UTF-16LE); BOM-less texts starting with a non-NUL ASCII character are detected as their encoding for every length (whole function on all texts up to 8 bytes + the analysis-loop step at an arbitrary position of an arbitrarily long text); NUL-free UTF-8 is never misdetected; WriteBom emits the exact BOM. CEncodedStreamReader<char,256>::ReadChunk/IsEnd are proved from an arbitrary well-formed state against the decoder contracts: every stream byte is handed to the decoder exactly once, in order, on whole code units, independent of the chunk boundary; a Success result strictly reduces the undecoded bytes (no hang); an incomplete tail at the end of the stream is marked or reported per policy.",
  "note": "decoders replaced by their contracts (proved in utf_transcode, LE/BE iterator adapters not under contract); only the char-target instantiation with chunk 256; CEncodedStreamWriter::Write (std::variant/visit) not under contract; istream model",
  "technique": _T + "class invariant + progress measure + ghost content tracking on the real CEncodedStreamReader; step/whole-function contracts on DetectEncoding (R2, SAT)"}
CHECKS["C05"] = {"category": "proof",
  "text": "Proved: every CMsgPackStringReader::ReadValue/Read*Size overload consumes exactly the offending value when it skips (overflow with Skip: head consumed, target untouched, reported not loaded; mismatch with Skip or nil: exactly one SkipValueImpl from the read position), SkipValueImpl consumes exactly head+payload for scalar/str/bin/ext values and head + count element skips for containers (recursive contract, loop contracts for every count), and the MsgPack array/binary scopes advance their element index exactly with the values consumed on every non-raising path (verified against the reader interface contract).",
  "note": "object-scope key lookup, JSON/XML/CSV archives and the Required validator interplay are not under contract; nested container skipping is modular (depth not bounded, termination of recursion not proved)",
  "technique": _T + "consumed-exactly-one-value postconditions; modular scope proofs against the reader interface contract with a ghost consumption counter"}
CHECKS["C03"] = {"category": "proof",
  "text": "Proved building blocks of out-of-order field access: CBinaryStreamReader::SetPosition reaches every offset of the stream (cached or not, forwards/backwards, after end-of-stream) and leaves a well-formed reader; CMsgPackStringReader::SetPosition/GetPosition; SkipValueImpl skips exactly one value. CSV by-name access in reverse column order is covered by the bounded native stand-in. The MsgPack object scope's key search (FindValueByKey/ResetKey/VisitKeys) is listed in the evidence only when under contract.",
  "note": "CMsgPackReadObjectScope and JSON/XML lookups are not under contract in this round; partial claim",
  "technique": _T + "abstract-view postconditions on SetPosition / skip (R2, SAT) + bounded native CSV by-key check"}
_NR = "not reached yet in this round: the check is not built; see DESIGN.md §0 for the planned contracts"
NOT_APPLICABLE = {
 "C08": "well-formedness and acceptance of JSON/XML text is decided inside RapidJSON and pugixml (third-party code outside /repo); no contract on /repo code can express it without a verified model of those libraries (DESIGN.md §4 C08)",
}
for _p in ["C01","C16","C17","C18","C19","C20"]:
    NOT_APPLICABLE.setdefault(_p, _NR)
