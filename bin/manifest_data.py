NOTES = "Contract-based deductive verification with CBMC on C extracted mechanically (cxx2c) from /repo's working tree on every run. See DESIGN.md."
_T = "cxx2c extraction + CBMC: "
CHECKS = {
 "C06": {"category": "proof",
  "text": "Every CMsgPackStringWriter/CMsgPackStreamWriter method is proved, over its full argument domain (all 2^64 integers, all float bit patterns, all sizes, all (seconds,nanoseconds<1e9)), to append exactly one head that an independent MessagePack reference decoder maps back to the argument, in the smallest format; sizes >= 2^32 raise OutOfRange and emit nothing. Loop-free code, so a single SAT query per method is a complete proof. Two genuine deviations are known findings.",
  "note": "sink model of std::string/std::ostream (append-only, no failure); cxx2c translation; header-count == entries-written of container scopes and user-class field counting are not yet under contract",
  "technique": _T + "full-domain postconditions against an independent MessagePack reference decoder (R2 direct harness, SAT)"},
}
_NR = "not reached yet in this round: the check is not built; see DESIGN.md §0 for the planned contracts"
NOT_APPLICABLE = {
 "C08": "well-formedness and acceptance of JSON/XML text is decided inside RapidJSON and pugixml (third-party code outside /repo); no contract on /repo code can express it without a verified model of those libraries (DESIGN.md §4 C08)",
}
for _p in ["C01","C02","C03","C04","C05","C07","C09","C10","C11","C12","C13","C14","C15","C16","C17","C18","C19","C20"]:
    NOT_APPLICABLE.setdefault(_p, _NR)
