#!/bin/bash
# verify_seed.sh <worktree-with-seed_* files> : confirms (a) demo passes unpatched, (b) patched tree builds and the baseline suite passes,
# (c) demo fails patched. Prints a one-line verdict. Restores the worktree and removes build output.
set -u
W=$1; cd "$W" || exit 2
git checkout -q -- . 2>/dev/null
CMD=$(grep -m1 -E '^// *(g\+\+|clang\+\+)' seed_demo.cpp | sed 's|^// *||')
[ -z "$CMD" ] && { echo "SEED $W: no compile command"; exit 2; }
build_demo() { rm -f seed_demo; eval "$CMD" >/dev/null 2>seed_demo_build.log; }
build_demo || { echo "SEED $W: demo does not compile unpatched"; exit 1; }
./seed_demo >/dev/null 2>&1; R0=$?
git apply seed_patch.diff || { echo "SEED $W: patch does not apply"; exit 1; }
build_demo; B1=$?; ./seed_demo >/dev/null 2>&1; R1=$?
cmake -G Ninja -B _build -DCMAKE_BUILD_TYPE=RelWithDebInfo -DBUILD_TESTING=ON -DBUILD_TESTS=ON -DCMAKE_CXX_FLAGS=-Wno-error >/dev/null 2>&1 && cmake --build _build -j${2:-8} >/dev/null 2>&1; BB=$?
T=$(ctest --test-dir _build -j8 2>&1 | grep -E "tests passed|tests failed" | head -1)
git checkout -q -- .; rm -rf _build seed_demo seed_demo_build.log
echo "SEED $W: demo_unpatched_rc=$R0 demo_patched_build=$B1 demo_patched_rc=$R1 suite_build_rc=$BB suite='$T'"
