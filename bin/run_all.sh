#!/bin/bash
# runs every check registered in MANIFEST.json (quick tier) on /repo's current tree; prints one line per property. Used before committing evidence.
cd "$(dirname "$0")/.."
if [ -n "$(git -C /repo status --porcelain --untracked-files=no)" ]; then echo "WARNING: /repo working tree is not clean"; fi
for P in $(python3 -c "import json; print(' '.join(c['property_id'] for c in json.load(open('MANIFEST.json'))['checks']))"); do
  out=$(bin/check $P --tier quick 2>&1); rc=$?
  echo "$P rc=$rc $(echo "$out" | grep -E 'obligations discharged' | tail -1)"
  echo "$out" | grep -E "^VIOLATION" | head -3
done
