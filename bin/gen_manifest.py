#!/usr/bin/env python3
"""Regenerates MANIFEST.json from bin/manifest_data.py (single source for claimed checks / not_applicable)."""
import json, os, sys
sys.path.insert(0, os.path.dirname(os.path.abspath(__file__)))
import manifest_data as M
props = [json.loads(l)["id"] for l in open(os.path.join(os.path.dirname(__file__), "..", "properties.jsonl"))]
checks = []
for pid in props:
    if pid in M.CHECKS:
        c = M.CHECKS[pid]
        checks.append({"property_id": pid, "quick_cmd": "bin/check %s --tier quick" % pid, "thorough_cmd": "bin/check %s --tier thorough" % pid,
                       "evidence_file": "evidence/%s.json" % pid, "replay_cmd_template": "bin/check %s --replay {path}" % pid, "engine": "cxx2c+cbmc",
                       "level_claimed": {"category": c["category"], "text": c["text"], "design_ref": c.get("design_ref", "DESIGN.md §4 " + pid)},
                       "level_note": c["note"], "technique": c["technique"]})
na = [{"property_id": p, "reason": M.NOT_APPLICABLE[p]} for p in props if p not in M.CHECKS]
missing = [p for p in props if p not in M.CHECKS and p not in M.NOT_APPLICABLE]
assert not missing, missing
man = {"version": 1, "setup_cmd": "tools/build_cxx2c.sh",
       "hooks": {"guard": "BITSERIALIZER_VERIF", "enable": "no hook is needed: contracts, models and harnesses live in /verif and are attached to the C that cxx2c extracts from /repo on every run",
                 "baseline_off_cmd": "cmake --build /repo/_build -j16 && ctest --test-dir /repo/_build -j8 --timeout 900", "source_commits": [], "add_only": True},
       "engines": [{"name": "cxx2c+cbmc", "path": "bin/check", "serves_properties": sorted(M.CHECKS), "kind_free_text": "clang-14 libTooling C++->C extraction of the real functions on every run; CBMC 6.11 code contracts (goto-instrument --dfcc) and full-domain direct harnesses; native replay of counterexamples on the real code"}],
       "checks": checks, "not_applicable": na, "notes": M.NOTES}
json.dump(man, open(os.path.join(os.path.dirname(__file__), "..", "MANIFEST.json"), "w"), indent=1)
print("MANIFEST.json: %d checks, %d not_applicable" % (len(checks), len(na)))
