#!/usr/bin/env python3
"""archive_seed.py <worktree> <seed-id> <property> <verify-log-line-file> "<detected-by text>" : copies a confirmed seeded defect into /verif/seeded/<id>/"""
import sys, os, json, shutil, re
wt, sid, prop, verline, detected = sys.argv[1:6]
dst = os.path.join(os.path.dirname(os.path.dirname(os.path.abspath(__file__))), "seeded", sid)
os.makedirs(dst, exist_ok=True)
shutil.copy(os.path.join(wt, "seed_patch.diff"), os.path.join(dst, "patch.diff"))
shutil.copy(os.path.join(wt, "seed_demo.cpp"), os.path.join(dst, "demo.cpp"))
meta_txt = open(os.path.join(wt, "seed_meta.txt")).read()
json.dump({"id": sid, "property": prop, "breaks": meta_txt.strip().split("\n")[0][:300], "needs_to_manifest_and_notes": meta_txt,
           "confirmed_by_me": verline, "what_i_ran": "bin/verify_seed.sh <worktree> (demo unpatched rc=0; patch applied: baseline suite builds and passes, demo rc!=0); then `git -C /repo apply patch.diff; bin/check %s; git -C /repo checkout -- .`" % prop,
           "detected_by": detected}, open(os.path.join(dst, "meta.json"), "w"), indent=1)
print("archived", dst)
