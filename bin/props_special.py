# properties whose check is not just "run the jobs tagged with the property" register here
SPECIAL = {}
