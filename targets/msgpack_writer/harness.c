/* Contracts + harnesses for the real CMsgPackStringWriter / CMsgPackStreamWriter (src/msgpack/msgpack_writers.cpp).
   Route R2 (DESIGN §2.5): loop-free functions, whole /repo callee chain inlined, full symbolic argument domain.
   Postconditions are phrased with the independent reference decoder of spec/msgpack_spec.h:
     "what the writer appended is exactly one head that the reference decoder maps back to the argument,
      in the smallest format, and nothing else happened to the sink". */
#include "models/prelude.h"
#include "models/sink.h"
#include "models/sv.h"
#include "gen.h"
#include "spec/msgpack_spec.h"
#include "gen.c"

static char verif_payload_anchor;   /* object whose address stands for "the caller's payload bytes" */

static void sink_init(vsink* s) {
  s->len = nondet_size_t(); __CPROVER_assume(s->len < ((size_t)1 << 62));
  s->base = s->len; s->expect_bulk_ptr = 0; s->bulk_count = 0; s->bulk_ptr = 0; s->bulk_n = 0; s->bulk_at = 0; s->small_ops = 0;
}
#define BIND_String(w, out) (w).mOutputString = &(out)
#define BIND_Stream(w, out) (w).mOutputStream = &(out)

#define PRE(K) vsink out; sink_init(&out); struct CMsgPack##K##Writer w; BIND_##K(w, out); size_t len0 = out.len; __verif_exc = 0;
#define NAPP (out.len - len0)

/* ---- integers ------------------------------------------------------------------------------------------ */
#define H_INT(K, TAG, CT, NONDET) \
void h_##K##_##TAG(void) { PRE(K) CT v = (CT)NONDET(); \
  CMsgPack##K##Writer_WriteValue__##TAG(&w, v); \
  mp_head h = mp_ref_head(out.win, NAPP); \
  VERIF_ASSERT("C06", __verif_exc == 0, "writing an integer never raises"); \
  VERIF_ASSERT("C06", out.bulk_count == 0 && NAPP >= 1 && NAPP <= 9 && !h.truncated && h.head_len == NAPP, "exactly one complete MessagePack head was appended, nothing else"); \
  VERIF_ASSERT("C06", mp_head_is_int(&h) && mp_head_int_value(&h) == (__int128)v, "the reference decoder recovers the same integer"); \
  VERIF_ASSERT("C06", kf_signed_positive_noncompact((__int128)v, sizeof(CT), ((CT)-1) < 0) || NAPP == mp_min_int_len((__int128)v), "integer uses the format with the smallest number of bytes (outside KF-C06-signed-positive)"); \
  VERIF_CANARY(); }

/* witness class of known finding KF-C06-signed-positive: signed overloads keep the int family for non-negative values
   where the uint family of the specification is strictly shorter */
static inline _Bool kf_signed_positive_noncompact(__int128 v, unsigned size, _Bool is_signed) {
  if (!is_signed || size < 2) return 0;
  return (v >= 128 && v <= 255) || (v >= 32768 && v <= 65535) || (v >= 2147483648LL && v <= 4294967295LL);
}
#define H_KF_SIGNED(K, TAG, CT, NONDET) \
void h_kf_##K##_##TAG(void) { PRE(K) CT v = (CT)NONDET(); __CPROVER_assume(kf_signed_positive_noncompact((__int128)v, sizeof(CT), 1)); \
  CMsgPack##K##Writer_WriteValue__##TAG(&w, v); \
  VERIF_ASSERT("C06", NAPP == mp_min_int_len((__int128)v), "[KF-C06-signed-positive] non-negative value passed as a signed type uses the smallest format"); }

/* ---- nil / bool / floats -------------------------------------------------------------------------------- */
#define H_MISC(K) \
void h_##K##_nil(void) { PRE(K) CMsgPack##K##Writer_WriteValue__np(&w, (void*)0); mp_head h = mp_ref_head(out.win, NAPP); \
  VERIF_ASSERT("C06", __verif_exc == 0 && out.bulk_count == 0 && NAPP == 1 && h.family == MPF_NIL, "nil is the single byte 0xC0"); VERIF_CANARY(); } \
void h_##K##_bool(void) { PRE(K) _Bool v = nondet_bool(); CMsgPack##K##Writer_WriteValue__b(&w, v); mp_head h = mp_ref_head(out.win, NAPP); \
  VERIF_ASSERT("C06", __verif_exc == 0 && out.bulk_count == 0 && NAPP == 1 && h.family == MPF_BOOL && h.u == (v ? 1u : 0u), "bool is one byte decoding to the same truth value"); VERIF_CANARY(); } \
void h_##K##_f32(void) { PRE(K) float v = nondet_float(); uint32_t bits; memcpy(&bits, &v, 4); CMsgPack##K##Writer_WriteValue__f32(&w, v); mp_head h = mp_ref_head(out.win, NAPP); \
  VERIF_ASSERT("C06", __verif_exc == 0 && out.bulk_count == 0 && NAPP == 5 && !h.truncated && h.family == MPF_F32 && h.u == bits, "float32: 0xCA + big-endian IEEE bits, bit-identical (incl. NaN payloads)"); VERIF_CANARY(); } \
void h_##K##_f64(void) { PRE(K) double v = nondet_double(); uint64_t bits; memcpy(&bits, &v, 8); CMsgPack##K##Writer_WriteValue__f64(&w, v); mp_head h = mp_ref_head(out.win, NAPP); \
  VERIF_ASSERT("C06", __verif_exc == 0 && out.bulk_count == 0 && NAPP == 9 && !h.truncated && h.family == MPF_F64 && h.u == bits, "float64: 0xCB + big-endian IEEE bits, bit-identical"); VERIF_CANARY(); } \
void h_##K##_binbyte(void) { PRE(K) char b = nondet_char(); CMsgPack##K##Writer_WriteBinary__c8(&w, b); \
  VERIF_ASSERT("C06", __verif_exc == 0 && out.bulk_count == 0 && NAPP == 1 && out.win[0] == (unsigned char)b, "WriteBinary appends exactly the given byte"); VERIF_CANARY(); }

/* ---- container / string / binary heads ------------------------------------------------------------------- */
#define H_HEAD(K, NAME, CALL, FAMILY, MINLEN) \
void h_##K##_##NAME(void) { PRE(K) size_t n = nondet_size_t(); \
  CALL(&w, n); mp_head h = mp_ref_head(out.win, NAPP); \
  if (n <= 4294967295UL) { \
    VERIF_ASSERT("C06", __verif_exc == 0, "a size below 2^32 is accepted"); \
    VERIF_ASSERT("C06", out.bulk_count == 0 && NAPP >= 1 && NAPP <= 5 && !h.truncated && h.head_len == NAPP && h.family == FAMILY && h.u == n, "exactly one head of the right family carrying the same count was appended"); \
    VERIF_ASSERT("C06", NAPP == MINLEN(n), "header uses the smallest format able to hold the count"); \
  } else { \
    VERIF_ASSERT("C06", __verif_exc == EXC_SerializationException && __verif_exc_code == SerializationErrorCode_OutOfRange, "a size of 2^32 or more raises SerializationException(OutOfRange)"); \
    VERIF_ASSERT("C06", NAPP == 0 && out.small_ops == 0 && out.bulk_count == 0, "nothing is emitted when the size is rejected"); \
  } VERIF_CANARY(); }

#define H_STR(K) \
void h_##K##_str(void) { PRE(K) vsv_c8 sv; sv.data = &verif_payload_anchor; sv.size = nondet_size_t(); out.expect_bulk_ptr = sv.data; \
  CMsgPack##K##Writer_WriteValue__vsv_c8(&w, sv); \
  if (sv.size <= 4294967295UL) { \
    size_t hdr = out.bulk_at - len0; mp_head h = mp_ref_head(out.win, hdr); \
    VERIF_ASSERT("C06", __verif_exc == 0, "a string shorter than 2^32 bytes is accepted"); \
    VERIF_ASSERT("C06", out.bulk_count == 1 && out.bulk_ptr == sv.data && out.bulk_n == sv.size && out.bulk_at >= len0 && out.len == out.bulk_at + sv.size, "the string bytes are appended once, unmodified, directly after the head, and nothing follows"); \
    VERIF_ASSERT("C06", hdr >= 1 && hdr <= 5 && !h.truncated && h.head_len == hdr && h.family == MPF_STR && h.u == sv.size, "the head is a str head carrying the byte length"); \
    VERIF_ASSERT("C06", hdr == mp_min_str_hdr(sv.size), "str header uses the smallest format"); \
  } else { \
    VERIF_ASSERT("C06", __verif_exc == EXC_SerializationException && __verif_exc_code == SerializationErrorCode_OutOfRange, "a string of 2^32 bytes or more raises SerializationException(OutOfRange)"); \
    VERIF_ASSERT("C06", NAPP == 0 && out.small_ops == 0 && out.bulk_count == 0, "nothing is emitted when the string is rejected"); \
  } VERIF_CANARY(); } \
void h_##K##_cstr(void) { PRE(K) const char* p = &verif_payload_anchor; verif_cstr_len = nondet_size_t(); __CPROVER_assume(verif_cstr_len <= 4294967295UL); out.expect_bulk_ptr = p; \
  CMsgPack##K##Writer_WriteValue__pkc8(&w, p); size_t hdr = out.bulk_at - len0; mp_head h = mp_ref_head(out.win, hdr); \
  VERIF_ASSERT("C06", __verif_exc == 0 && out.bulk_count == 1 && out.bulk_ptr == p && out.bulk_n == verif_cstr_len && out.len == out.bulk_at + verif_cstr_len && hdr >= 1 && hdr <= 5 && h.head_len == hdr && h.family == MPF_STR && h.u == verif_cstr_len && hdr == mp_min_str_hdr(verif_cstr_len), "C string: same as string_view of its length"); VERIF_CANARY(); }

/* ---- timestamp extension ---------------------------------------------------------------------------------- */
#define H_TS(K) \
void h_##K##_ts(void) { PRE(K) struct CBinTimestamp ts; ts.Seconds = nondet_long(); ts.Nanoseconds = nondet_int(); \
  __CPROVER_assume(ts.Nanoseconds >= 0 && ts.Nanoseconds <= 999999999);   /* precondition of the writer: documented range of CBinTimestamp::Nanoseconds */ \
  CMsgPack##K##Writer_WriteValue__rkCBinTimestamp(&w, &ts); \
  mp_head h = mp_ref_head(out.win, NAPP); \
  VERIF_ASSERT("C06", __verif_exc == 0 && out.bulk_count == 0, "writing a timestamp with nanoseconds in range never raises"); \
  VERIF_ASSERT("C06", !h.truncated && h.family == MPF_EXT && h.ext_type == -1 && NAPP == h.head_len + h.u && NAPP <= 15, "exactly one ext object of type -1 was appended"); \
  mp_ts t = mp_ref_timestamp(h.u, out.win + h.head_len); \
  VERIF_ASSERT("C06", kf_ts96(ts.Seconds) || (t.ok && t.sec == ts.Seconds && t.nsec == (uint32_t)ts.Nanoseconds), "the reference decoder recovers the same seconds and nanoseconds from the 32/64-bit layouts (96-bit layout: see KF-C06-ts96-order)"); \
  VERIF_ASSERT("C06", NAPP == mp_min_ts_total(ts.Seconds, (uint32_t)ts.Nanoseconds), "timestamp uses the smallest of the three layouts"); \
  VERIF_CANARY(); }

/* witness class of KF-C06-ts96-order: seconds that need the 96-bit layout */
static inline _Bool kf_ts96(int64_t sec) { return ((uint64_t)sec >> 34) != 0; }
#define H_KF_TS96(K) \
void h_kf_##K##_ts96(void) { PRE(K) struct CBinTimestamp ts; ts.Seconds = nondet_long(); ts.Nanoseconds = nondet_int(); \
  __CPROVER_assume(ts.Nanoseconds >= 0 && ts.Nanoseconds <= 999999999 && kf_ts96(ts.Seconds)); \
  CMsgPack##K##Writer_WriteValue__rkCBinTimestamp(&w, &ts); \
  mp_head h = mp_ref_head(out.win, NAPP); mp_ts t = mp_ref_timestamp(h.u, out.win + h.head_len); \
  VERIF_ASSERT("C06", t.ok && t.sec == ts.Seconds && t.nsec == (uint32_t)ts.Nanoseconds, "[KF-C06-ts96-order] timestamp 96 payload is nanoseconds(32) then seconds(64) as the specification lays it out"); }

#define ALL(K) \
  H_INT(K, u8, unsigned char, nondet_uchar) H_INT(K, u16, unsigned short, nondet_ushort) H_INT(K, u32, unsigned int, nondet_uint) H_INT(K, u64, unsigned long, nondet_ulong) \
  H_INT(K, i8, signed char, nondet_schar) H_INT(K, i16, short, nondet_short) H_INT(K, i32, int, nondet_int) H_INT(K, i64, long, nondet_long) \
  H_KF_SIGNED(K, i16, short, nondet_short) H_KF_SIGNED(K, i32, int, nondet_int) H_KF_SIGNED(K, i64, long, nondet_long) \
  H_MISC(K) H_STR(K) H_TS(K) H_KF_TS96(K) \
  H_HEAD(K, array, CMsgPack##K##Writer_BeginArray__u64, MPF_ARRAY, mp_min_array_hdr) \
  H_HEAD(K, map, CMsgPack##K##Writer_BeginMap__u64, MPF_MAP, mp_min_map_hdr) \
  H_HEAD(K, bin, CMsgPack##K##Writer_BeginBinary__u64, MPF_BIN, mp_min_bin_hdr)

ALL(String)
ALL(Stream)

/* constructors bind the sink reference and write nothing */
void h_ctor(void) {
  vsink a, b; sink_init(&a); sink_init(&b); size_t la = a.len, lb = b.len; __verif_exc = 0;
  struct CMsgPackStringWriter w1; struct CMsgPackStreamWriter w2;
  CMsgPackStringWriter_ctor__rvstr_c8(&w1, &a); CMsgPackStreamWriter_ctor__rvostream(&w2, &b);
  VERIF_ASSERT("C06", w1.mOutputString == &a && w2.mOutputStream == &b && a.len == la && b.len == lb && a.small_ops == 0 && b.small_ops == 0 && __verif_exc == 0, "constructing a writer binds the sink and emits nothing");
  VERIF_CANARY();
}

/*@jobs
for K in String Stream:
  for T in u8 u16 u32 u64 i8 i16 i32 i64 nil bool f32 f64 binbyte str cstr ts array map bin:
    job entry=h_{K}_{T} props=C06,C10,C01 mode=direct unwind=20
  for T in i16 i32 i64:
    job entry=h_kf_{K}_{T} props=C06 mode=direct unwind=20 kf=KF-C06-signed-positive canary=off
  job entry=h_kf_{K}_ts96 props=C06 mode=direct unwind=20 kf=KF-C06-ts96-order canary=off
job entry=h_ctor props=C06 mode=direct unwind=2
@*/
