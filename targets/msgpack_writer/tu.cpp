// extraction TU: the real translation unit of the MsgPack writers
#include "../../../repo/src/msgpack/msgpack_writers.cpp"
