// Native replay for the msgpack_writer target: runs the REAL writers of /repo on the counterexample's inputs and evaluates
// the same reference decoder (spec/msgpack_spec.h) natively.  Prints REPRODUCED when the real code violates the spec.
#include "../../../repo/src/msgpack/msgpack_writers.cpp"
#include <sstream>
#include <iostream>
#include "replay/replay_util.h"
extern "C" {
#include "spec/msgpack_spec.h"
}
using namespace BitSerializer::MsgPack::Detail;
static std::string gOut; static std::ostringstream gStream;
template <class F> static std::string runBoth(bool stream, F f, bool& raised) {
  raised = false; std::string s; std::ostringstream os;
  try { if (stream) { CMsgPackStreamWriter w(os); f(static_cast<IMsgPackWriter&>(w)); s = os.str(); } else { CMsgPackStringWriter w(s); f(static_cast<IMsgPackWriter&>(w)); } }
  catch (const BitSerializer::SerializationException&) { raised = true; }
  return s;
}
static void hex(const std::string& s) { for (unsigned char c : s) printf("%02X ", c); printf("\n"); }
int main(int argc, char** argv) {
  ReplayDoc d; if (argc < 2 || !d.load(argv[1])) { puts("cannot read replay file"); return 2; }
  std::string e = d.entry; bool kf = e.rfind("h_kf_", 0) == 0; if (kf) e = "h_" + e.substr(5);
  bool stream = e.find("_Stream_") != std::string::npos; std::string T = e.substr(e.rfind('_') + 1);
  bool raised = false, bad = false; std::string out;
  auto intCheck = [&](__int128 v, bool isSigned, unsigned size) {
    mp_head h = mp_ref_head((const unsigned char*)out.data(), out.size());
    if (raised || out.empty() || h.truncated || h.head_len != out.size() || !mp_head_is_int(&h) || mp_head_int_value(&h) != v) bad = true;
    if (out.size() != mp_min_int_len(v)) bad = true;
    (void)isSigned; (void)size;
  };
  if (T == "u8") { auto v = (uint8_t)d.u64("v"); out = runBoth(stream, [&](IMsgPackWriter& w) { w.WriteValue(v); }, raised); intCheck(v, false, 1); }
  else if (T == "u16") { auto v = (uint16_t)d.u64("v"); out = runBoth(stream, [&](IMsgPackWriter& w) { w.WriteValue(v); }, raised); intCheck(v, false, 2); }
  else if (T == "u32") { auto v = (uint32_t)d.u64("v"); out = runBoth(stream, [&](IMsgPackWriter& w) { w.WriteValue(v); }, raised); intCheck(v, false, 4); }
  else if (T == "u64") { auto v = (uint64_t)d.u64("v"); out = runBoth(stream, [&](IMsgPackWriter& w) { w.WriteValue(v); }, raised); intCheck(v, false, 8); }
  else if (T == "i8") { auto v = (int8_t)d.i64("v"); out = runBoth(stream, [&](IMsgPackWriter& w) { w.WriteValue(v); }, raised); intCheck(v, true, 1); }
  else if (T == "i16") { auto v = (int16_t)d.i64("v"); out = runBoth(stream, [&](IMsgPackWriter& w) { w.WriteValue(v); }, raised); intCheck(v, true, 2); }
  else if (T == "i32") { auto v = (int32_t)d.i64("v"); out = runBoth(stream, [&](IMsgPackWriter& w) { w.WriteValue(v); }, raised); intCheck(v, true, 4); }
  else if (T == "i64") { auto v = (int64_t)d.i64("v"); out = runBoth(stream, [&](IMsgPackWriter& w) { w.WriteValue(v); }, raised); intCheck(v, true, 8); }
  else if (T == "bool") { bool v = d.u64("v") != 0; out = runBoth(stream, [&](IMsgPackWriter& w) { w.WriteValue(v); }, raised); bad = raised || out.size() != 1 || (unsigned char)out[0] != (v ? 0xC3 : 0xC2); }
  else if (T == "nil") { out = runBoth(stream, [&](IMsgPackWriter& w) { w.WriteValue(nullptr); }, raised); bad = raised || out != "\xC0"; }
  else if (T == "f32") { uint32_t bits = (uint32_t)d.u64("v"); float v; memcpy(&v, &bits, 4); out = runBoth(stream, [&](IMsgPackWriter& w) { w.WriteValue(v); }, raised); mp_head h = mp_ref_head((const unsigned char*)out.data(), out.size()); bad = raised || out.size() != 5 || h.family != MPF_F32 || h.u != bits; }
  else if (T == "f64") { uint64_t bits = d.u64("v"); double v; memcpy(&v, &bits, 8); out = runBoth(stream, [&](IMsgPackWriter& w) { w.WriteValue(v); }, raised); mp_head h = mp_ref_head((const unsigned char*)out.data(), out.size()); bad = raised || out.size() != 9 || h.family != MPF_F64 || h.u != bits; }
  else if (T == "ts" || T == "ts96") { BitSerializer::Detail::CBinTimestamp ts(d.i64("ts.Seconds"), (int32_t)d.i64("ts.Nanoseconds")); out = runBoth(stream, [&](IMsgPackWriter& w) { w.WriteValue(ts); }, raised);
    mp_head h = mp_ref_head((const unsigned char*)out.data(), out.size()); mp_ts t = mp_ref_timestamp(h.u, (const unsigned char*)out.data() + h.head_len);
    bad = raised || h.family != MPF_EXT || h.ext_type != -1 || out.size() != h.head_len + h.u || !t.ok || t.sec != ts.Seconds || t.nsec != (uint32_t)ts.Nanoseconds || out.size() != mp_min_ts_total(ts.Seconds, (uint32_t)ts.Nanoseconds); }
  else if (T == "array" || T == "map" || T == "bin") { uint64_t n = d.u64("n");
    out = runBoth(stream, [&](IMsgPackWriter& w) { if (T == "array") w.BeginArray(n); else if (T == "map") w.BeginMap(n); else w.BeginBinary(n); }, raised);
    mp_head h = mp_ref_head((const unsigned char*)out.data(), out.size()); int fam = T == "array" ? MPF_ARRAY : T == "map" ? MPF_MAP : MPF_BIN;
    unsigned mn = T == "array" ? mp_min_array_hdr(n) : T == "map" ? mp_min_map_hdr(n) : mp_min_bin_hdr(n);
    if (n <= 0xFFFFFFFFull) bad = raised || h.truncated || h.head_len != out.size() || h.family != fam || h.u != n || out.size() != mn; else bad = !raised || !out.empty(); }
  else if (T == "str" || T == "cstr") { uint64_t n = d.has("sv.size") ? d.u64("sv.size") : d.u64("verif_cstr_len"); if (n > (1u << 26)) { printf("string of %llu bytes not materialised natively\n", (unsigned long long)n); puts("NOT-REPRODUCED"); return 0; }
    std::string payload(n, 'x'); out = runBoth(stream, [&](IMsgPackWriter& w) { w.WriteValue(std::string_view(payload)); }, raised);
    mp_head h = mp_ref_head((const unsigned char*)out.data(), out.size()); bad = raised || h.family != MPF_STR || h.u != n || out.size() != h.head_len + n || h.head_len != mp_min_str_hdr(n) || out.compare(h.head_len, n, payload) != 0; }
  else if (T == "binbyte") { char b = (char)d.i64("b"); out = runBoth(stream, [&](IMsgPackWriter& w) { w.WriteBinary(b); }, raised); bad = raised || out.size() != 1 || out[0] != b; }
  else { puts("unknown harness"); return 2; }
  printf("entry=%s stream=%d raised=%d output=", d.entry.c_str(), (int)stream, (int)raised); hex(out);
  puts(bad ? "REPRODUCED: the real writer's output disagrees with the MessagePack reference decoder / smallest-format rule" : "NOT-REPRODUCED");
  return 0;
}
