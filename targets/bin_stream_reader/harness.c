/* CBinaryStreamReader (src/common/binary_stream_reader.cpp) against an abstract view that does not mention the 256-byte chunk:
     view(reader) = (stream contents, logical position L = mStreamPos - (mEndDataPtr - mStartDataPtr))
   Every public method is proved from an ARBITRARY well-formed state (any cache fill, any position of the cursor relative to the chunk,
   any stream length up to 2^50, any reachable stream flag state) to re-establish well-formedness and to deliver exactly the bytes at L.

   Buffer CONTENTS are followed with ghost state instead of memory: ghost g_lo / [g_vlo, g_vhi) mean "buffer cell k holds stream byte
   g_lo + k, for every g_vlo <= k < g_vhi".  The ghost is updated only by the models of the two operations that move bytes - istream::read
   (delivery hook) and memcpy/memmove (checked for validity and, memcpy, for non-overlap) - and every byte handed to the client
   (make_optional(*p), string_view(p, n)) is checked to come from cells inside the valid range whose stream offsets are exactly L, L+1, ...
   This is exact for code that never branches on buffer contents.
   C10: clients proved against this contract are independent of where chunk boundaries fall.  C03: SetPosition. */
#include "models/prelude.h"
#define CHUNK 256
static size_t g_lo, g_vlo, g_vhi;                /* ghost: cell k holds stream byte g_lo + k for g_vlo <= k < g_vhi */
static _Bool g_content_broken;                   /* ghost: some byte movement did not fit the mapping (contents would be wrong) */
static size_t g_out_cell, g_out_n; static unsigned g_outs;   /* ghost: last block of cells handed to the client */
static size_t g_lo_at_out, g_vlo_at_out, g_vhi_at_out;       /* ghost: the mapping at hand-out time */
static void ghost_on_read(const void* dest, size_t first_offset, size_t count);
static void ghost_on_out(const void* p, size_t n);
#define VERIF_ON_STREAM_READ(s, dest, first_offset, count) ghost_on_read(dest, first_offset, count)
#define VERIF_ON_MAKE_OPTIONAL(p) ghost_on_out(p, 1)
#include "models/sv.h"
#include "models/optional.h"
#include "models/istream.h"
#include "gen.h"
static struct CBinaryStreamReader g_reader_storage;   /* the reader under proof */
#define g_r (&g_reader_storage)

static void ghost_on_read(const void* dest, size_t first_offset, size_t count) {
  if (count == 0) return;
  if (!__CPROVER_same_object(dest, g_r->mBuffer)) { g_content_broken = 1; return; }
  size_t cell = (size_t)((const char*)dest - g_r->mBuffer);
  if (g_vlo < g_vhi && cell >= g_vlo && cell <= g_vhi && g_lo + cell == first_offset) { g_vhi = cell + count; return; }   /* written behind (or over the tail of) the valid cells with continuing offsets */
  g_lo = first_offset - cell; g_vlo = cell; g_vhi = cell + count;                                   /* otherwise only the freshly written cells are known (the claim only shrinks) */
}
static void ghost_on_out(const void* p, size_t n) {
  g_outs++; g_lo_at_out = g_lo; g_vlo_at_out = g_vlo; g_vhi_at_out = g_vhi;
  if (!__CPROVER_same_object(p, g_r->mBuffer)) { g_content_broken = 1; return; }
  g_out_cell = (size_t)((const char*)p - g_r->mBuffer); g_out_n = n;
}
static void* verif_copy(void* dst, const void* src, size_t n, _Bool must_not_overlap) {
  const char* s = (const char*)src; char* d = (char*)dst;
  __CPROVER_assert(n == 0 || (__CPROVER_r_ok(s, n) && __CPROVER_w_ok(d, n)), "MODEL: memcpy/memmove source readable and destination writable for n bytes");
  if (must_not_overlap) __CPROVER_assert(n == 0 || !__CPROVER_same_object(d, s) || d + n <= s || s + n <= d, "MODEL: memcpy source and destination do not overlap (undefined behaviour otherwise)");
  if (n == 0) return dst;
  if (!__CPROVER_same_object(d, g_r->mBuffer) || !__CPROVER_same_object(s, g_r->mBuffer)) { g_content_broken = 1; return dst; }
  size_t dc = (size_t)(d - g_r->mBuffer), sc = (size_t)(s - g_r->mBuffer);
  /* the moved cells must all be valid; afterwards the valid cells are exactly the moved block at its new place */
  /* cells that were valid and are moved keep their stream bytes at the new place; everything else in the destination range becomes unknown */
  { size_t a = sc > g_vlo ? sc : g_vlo, b = sc + n < g_vhi ? sc + n : g_vhi; if (sc >= dc && a < b) { g_lo = g_lo + sc - dc; g_vlo = a - (sc - dc); g_vhi = b - (sc - dc); } else if (sc >= dc) { g_vlo = g_vhi = 0; } else g_content_broken = 1; }
  return dst;
}
#define VERIF_MEMCPY(d, s, n) verif_copy(d, s, n, 1)
#define VERIF_MEMMOVE(d, s, n) verif_copy(d, s, n, 0)
static inline vsv_c8 sv_ctor_hook(const char* p, unsigned long n) { if (n) ghost_on_out(p, n); vsv_c8 r; r.data = p; r.size = n; return r; }
#define vsv_c8_ctor__pkc8_u64(p, n) sv_ctor_hook(p, n)
#include "gen.c"
#undef vsv_c8_ctor__pkc8_u64

struct bsr { vistream S; struct CBinaryStreamReader* r; size_t so, eo, L; };

/* class invariant */
static _Bool bsr_wf(const struct CBinaryStreamReader* r, const vistream* S) {
  if (!__CPROVER_same_object(r->mStartDataPtr, r->mBuffer) || !__CPROVER_same_object(r->mEndDataPtr, r->mBuffer)) return 0;
  size_t so = (size_t)(r->mStartDataPtr - r->mBuffer), eo = (size_t)(r->mEndDataPtr - r->mBuffer);
  if (!(so <= eo && eo <= CHUNK)) return 0;
  if (r->mEndBufferPtr != r->mBuffer + CHUNK || r->mStream != S) return 0;
  if (r->mStreamPos != S->pos || eo > r->mStreamPos || S->pos > S->size) return 0;
  const vios* f = &S->__base_basic_ios;
  if (f->badbit) return 0;
  if ((f->eofbit || f->failbit) && S->pos != S->size) return 0;       /* flags are only ever raised by hitting the end */
  if (f->failbit && !f->eofbit) return 0;
  /* the whole cache [0, eo) mirrors the stream bytes just before the stream position */
  if (g_content_broken) return 0;
  if (eo > 0 && !(g_vlo == 0 && g_vhi >= eo && g_vhi <= CHUNK && g_lo == r->mStreamPos - eo)) return 0;
  return 1;
}
static void bsr_init(struct bsr* b) {
  struct CBinaryStreamReader* r = &g_reader_storage; b->r = r;
  b->S.size = nondet_size_t(); __CPROVER_assume(b->S.size <= ((size_t)1 << 50));   /* streams up to 2^50 bytes */
  b->S.pos = nondet_size_t(); b->S.gcount_ = 0; b->S.reads = 0; b->S.seeks = 0;
  b->S.__base_basic_ios.eofbit = nondet_bool(); b->S.__base_basic_ios.failbit = nondet_bool(); b->S.__base_basic_ios.badbit = 0;
  b->so = nondet_size_t(); b->eo = nondet_size_t(); __CPROVER_assume(b->so <= b->eo && b->eo <= CHUNK);
  r->mStream = &b->S; r->mEndBufferPtr = r->mBuffer + CHUNK; r->mStartDataPtr = r->mBuffer + b->so; r->mEndDataPtr = r->mBuffer + b->eo;
  r->mStreamPos = b->S.pos;
  g_content_broken = 0; g_lo = nondet_size_t(); g_vlo = nondet_size_t(); g_vhi = nondet_size_t(); g_outs = 0; g_out_cell = 0; g_out_n = 0;
  __CPROVER_assume(bsr_wf(r, &b->S));   /* class invariant: the method under proof starts from an arbitrary well-formed state */
  b->L = r->mStreamPos - (b->eo - b->so);
  __verif_exc = 0;
}
#define LOGICAL(b) ((b).r->mStreamPos - (size_t)((b).r->mEndDataPtr - (b).r->mStartDataPtr))
/* exactly one block was handed out; it consists of n cells that were valid at hand-out time and held stream bytes off, off+1, ... */
#define OUT_IS(off, n) (g_outs == 1 && g_out_n == (n) && g_out_cell >= g_vlo_at_out && g_out_cell + (n) <= g_vhi_at_out && g_lo_at_out + g_out_cell == (off))
#define WF_POST(b) VERIF_ASSERT("C10,C02", bsr_wf((b).r, &(b).S) && __verif_exc == 0, "the reader is well-formed again (cursor inside the cache, cache mirrors the stream, positions consistent) and nothing was raised")

void h_ctor(void) {
  struct bsr b; b.r = &g_reader_storage; b.S.size = nondet_size_t(); __CPROVER_assume(b.S.size <= ((size_t)1 << 50)); b.S.pos = 0; b.S.gcount_ = 0; b.S.reads = 0; b.S.seeks = 0;
  b.S.__base_basic_ios.eofbit = 0; b.S.__base_basic_ios.failbit = 0; b.S.__base_basic_ios.badbit = 0; __verif_exc = 0;
  g_content_broken = 0; g_lo = 0; g_vlo = 0; g_vhi = 0; g_outs = 0;
  CBinaryStreamReader_ctor__rvistream(b.r, &b.S);
  WF_POST(b);
  VERIF_ASSERT("C10", LOGICAL(b) == 0, "a new reader is positioned at the first byte of the stream");
  VERIF_CANARY();
}
void h_position(void) { struct bsr b; bsr_init(&b);
  VERIF_ASSERT("C10,C03", CBinaryStreamReader_GetPosition___k(b.r) == b.L, "GetPosition reports the logical position");
  VERIF_ASSERT("C10", CBinaryStreamReader_IsEnd___k(b.r) == (b.so == b.eo && b.S.__base_basic_ios.eofbit), "IsEnd is 'nothing cached and the stream reported its end'");
  VERIF_ASSERT("C10,C20", !CBinaryStreamReader_IsEnd___k(b.r) || b.L == b.S.size, "IsEnd implies that the logical position is the end of the stream");
  VERIF_CANARY(); }
void h_read_byte(void) { struct bsr b; bsr_init(&b);
  vopt_c8 v = CBinaryStreamReader_ReadByte(b.r);
  WF_POST(b);
  VERIF_ASSERT("C10,C07", b.L >= b.S.size || (v.has && LOGICAL(b) == b.L + 1 && OUT_IS(b.L, 1)), "ReadByte delivers the byte at the logical position and advances by one, wherever the chunk boundary is");
  VERIF_ASSERT("C10,C20", b.L < b.S.size || (!v.has && LOGICAL(b) == b.L), "ReadByte at the end of the stream delivers nothing and does not move");
  VERIF_CANARY(); }
void h_peek_byte(void) { struct bsr b; bsr_init(&b);
  vopt_c8 v = CBinaryStreamReader_PeekByte(b.r);
  WF_POST(b);
  VERIF_ASSERT("C10,C07", b.L >= b.S.size || (v.has && LOGICAL(b) == b.L && OUT_IS(b.L, 1)), "PeekByte delivers the byte at the logical position without moving");
  VERIF_ASSERT("C10,C20", b.L < b.S.size || (!v.has && LOGICAL(b) == b.L), "PeekByte at the end of the stream delivers nothing");
  VERIF_CANARY(); }
void h_goto_next(void) { struct bsr b; bsr_init(&b);
  CBinaryStreamReader_GotoNextByte(b.r);
  WF_POST(b);
  VERIF_ASSERT("C10", LOGICAL(b) == (b.L < b.S.size ? b.L + 1 : b.L), "GotoNextByte advances by exactly one byte unless at the end");
  VERIF_CANARY(); }
void h_solid_block(void) { struct bsr b; bsr_init(&b); size_t n = nondet_size_t();
  vsv_c8 blk = CBinaryStreamReader_ReadSolidBlock__u64(b.r, n);
  WF_POST(b);
  _Bool can = n <= CHUNK && n <= b.S.size - b.L;
  VERIF_ASSERT("C10,C07", !(can && n > 0) || (blk.size == n && LOGICAL(b) == b.L + n && OUT_IS(b.L, n) && blk.data == b.r->mBuffer + g_out_cell && g_lo == g_lo_at_out && g_vlo <= g_out_cell && g_out_cell + n <= g_vhi),
     "ReadSolidBlock(n) delivers the n bytes at the logical position as one contiguous block (still valid on return) and advances by n, for every alignment of the block relative to the chunk");
  VERIF_ASSERT("C10,C20", can || (blk.size == 0 && LOGICAL(b) == b.L), "ReadSolidBlock(n) with fewer than n bytes left (or n > chunk size) delivers an empty block and does not move");
  VERIF_CANARY(); }
void h_by_chunks(void) { struct bsr b; bsr_init(&b); size_t rem = nondet_size_t();
  vsv_c8 blk = CBinaryStreamReader_ReadByChunks__u64(b.r, rem);
  WF_POST(b);
  VERIF_ASSERT("C10,C07", !(b.L < b.S.size && rem > 0) || (blk.size >= 1 && blk.size <= rem && blk.size <= b.S.size - b.L && LOGICAL(b) == b.L + blk.size && OUT_IS(b.L, blk.size) && blk.data == b.r->mBuffer + g_out_cell && g_lo == g_lo_at_out && g_vlo <= g_out_cell && g_out_cell + blk.size <= g_vhi),
     "ReadByChunks delivers a non-empty prefix (at most the requested size) of the bytes at the logical position and advances by its length");
  VERIF_ASSERT("C10,C20", b.L < b.S.size || (blk.size == 0 && LOGICAL(b) == b.L), "ReadByChunks at the end of the stream delivers an empty block");
  VERIF_CANARY(); }
void h_set_position(void) { struct bsr b; bsr_init(&b); size_t p = nondet_size_t(); __CPROVER_assume(p <= ((size_t)1 << 62));
  _Bool ok = CBinaryStreamReader_SetPosition__u64(b.r, p);
  VERIF_ASSERT("C03,C10", !ok || (bsr_wf(b.r, &b.S) && LOGICAL(b) == p && __verif_exc == 0), "a successful SetPosition leaves a well-formed reader positioned exactly at the requested offset");
  VERIF_ASSERT("C03,C10", p > b.S.size || ok, "[KF-C03-seek-after-eof] SetPosition succeeds for every offset inside the stream, forwards or backwards, cached or not, also after the end of the stream has been reached");
  VERIF_ASSERT("C03,C20", !(p > b.S.size) || !ok, "SetPosition beyond the end of the stream reports failure");
  VERIF_CANARY(); }

/*@jobs
for M in ctor position read_byte peek_byte goto_next solid_block by_chunks set_position:
  job entry=h_{M} props=C10,C03,C07,C20,C02 mode=direct unwind=3 kf=KF-C03-seek-after-eof
@*/
