// extraction TU: the real translation unit of CBinaryStreamReader
#include "../../../repo/src/common/binary_stream_reader.cpp"
