/* CEncodedStreamWriter::Write<char / char16_t> (convert_utf.h:1088-1113): std::visit over the variant of (encoder class, buffer) pairs is
   translated into a switch over the variant's index; each branch is the real generic lambda instantiated for that alternative.
   The per-encoding Encode functions are contract-only (proved in utf_transcode / utf_endian): one call transcodes [in,end) into the buffer.
   C13 (writer side): for every target encoding and every text, the WHOLE text is handed to the encoder of the configured encoding in ONE
   piece (so no multi-unit character can be cut), into that encoding's own buffer, and exactly the buffer's units (size * unit width bytes)
   are written to the stream; UTF-8 text to a UTF-8 stream is written verbatim; an encoding error is returned and nothing is written.
   (The contract pins the current one-piece design; a correct piecewise writer would need it generalised to a tiling of the text by the
   positions the encoder returns - such a rewrite shows up here as a failed obligation to be re-specified, not as a proven defect.) */
#include "models/prelude.h"
#include "models/sv.h"
#include <stdlib.h>
typedef struct { char* data; size_t size; unsigned clears; } vstr_c8;
typedef struct { uint16_t* data; size_t size; unsigned clears; } vstr_c16;
typedef struct { uint32_t* data; size_t size; unsigned clears; } vstr_c32;
typedef struct { unsigned writes; const char* ptr; long n; } vostream;
typedef struct { int index; void* alt[5]; } std_variant_vpair_Utf8_vstr_c8_vpair_Utf16Le_vstr_c16_vpair_Utf16Be_vstr_c16_vpair_Utf32Le_vstr_c32_vpair_Utf32Be_vstr_c32;
#define VNAME std_variant_vpair_Utf8_vstr_c8_vpair_Utf16Le_vstr_c16_vpair_Utf16Be_vstr_c16_vpair_Utf32Le_vstr_c32_vpair_Utf32Be_vstr_c32
#define VERIF_VARIANT_INDEX_std_variant_vpair_Utf8_vstr_c8_vpair_Utf16Le_vstr_c16_vpair_Utf16Be_vstr_c16_vpair_Utf32Le_vstr_c32_vpair_Utf32Be_vstr_c32(pv) ((pv)->index)
#define VERIF_VARIANT_ALT_std_variant_vpair_Utf8_vstr_c8_vpair_Utf16Le_vstr_c16_vpair_Utf16Be_vstr_c16_vpair_Utf32Le_vstr_c32_vpair_Utf32Be_vstr_c32_0(pv) ((struct vpair_Utf8_vstr_c8*)(pv)->alt[0])
#define VERIF_VARIANT_ALT_std_variant_vpair_Utf8_vstr_c8_vpair_Utf16Le_vstr_c16_vpair_Utf16Be_vstr_c16_vpair_Utf32Le_vstr_c32_vpair_Utf32Be_vstr_c32_1(pv) ((struct vpair_Utf16Le_vstr_c16*)(pv)->alt[1])
#define VERIF_VARIANT_ALT_std_variant_vpair_Utf8_vstr_c8_vpair_Utf16Le_vstr_c16_vpair_Utf16Be_vstr_c16_vpair_Utf32Le_vstr_c32_vpair_Utf32Be_vstr_c32_2(pv) ((struct vpair_Utf16Be_vstr_c16*)(pv)->alt[2])
#define VERIF_VARIANT_ALT_std_variant_vpair_Utf8_vstr_c8_vpair_Utf16Le_vstr_c16_vpair_Utf16Be_vstr_c16_vpair_Utf32Le_vstr_c32_vpair_Utf32Be_vstr_c32_3(pv) ((struct vpair_Utf32Le_vstr_c32*)(pv)->alt[3])
#define VERIF_VARIANT_ALT_std_variant_vpair_Utf8_vstr_c8_vpair_Utf16Le_vstr_c16_vpair_Utf16Be_vstr_c16_vpair_Utf32Le_vstr_c32_vpair_Utf32Be_vstr_c32_4(pv) ((struct vpair_Utf32Be_vstr_c32*)(pv)->alt[4])
#define STR(S, CH) static inline void S##_clear(S* s) { s->size = 0; s->clears++; } static inline CH* S##_data(S* s) { return s->data; } static inline size_t S##_size___k(const S* s) { return s->size; }
STR(vstr_c8, char) STR(vstr_c16, uint16_t) STR(vstr_c32, uint32_t)
static inline vostream* vostream_write__pkc8_i64(vostream* s, const char* p, long n) { __CPROVER_assert(n >= 0, "MODEL: ostream::write count is non-negative"); s->writes++; s->ptr = p; s->n = n; return s; }
#include "gen.h"
/* ---- Encode contract: one call, whole range, fills the given buffer with k units, or reports an error ---- */
static unsigned g_enc_calls; static const void* g_enc_in; static const void* g_enc_end; static void* g_enc_out; static int g_enc_kind; static int g_enc_code; static size_t g_enc_units; static _Bool g_enc_after_clear; static int g_enc_policy;
#define ENC(NAME, RES, INCH, OUT, KIND) \
struct RES NAME(const INCH* in, const INCH* const* end, OUT* out, int policy, const void* mark) { g_enc_calls++; g_enc_in = in; g_enc_end = *end; g_enc_out = out; g_enc_kind = KIND; g_enc_after_clear = out->size == 0; g_enc_policy = policy; \
  struct RES r; g_enc_code = nondet_bool() ? 0 : (nondet_bool() ? 1 : 2); r.ErrorCode = g_enc_code; r.Iterator = g_enc_code == 0 ? *end : in; r.InvalidSequencesCount = nondet_size_t(); size_t k = nondet_size_t(); __CPROVER_assume(k <= ((size_t)1 << 50)); out->size += k; g_enc_units = out->size; return r; }
ENC(Utf8_Encode_pkc16_c8_valloc_c8__pkc16_rkpkc16_rvstr_c8_UtfEncodingErrorPolicy_pkc8, UtfEncodingResult_pkc16, uint16_t, vstr_c8, 0)
ENC(Utf16Le_Encode_pkc8_c16_valloc_c16__pkc8_rkpkc8_rvstr_c16_UtfEncodingErrorPolicy_pkc16, UtfEncodingResult_pkc8, char, vstr_c16, 1)
ENC(Utf16Be_Encode_pkc8_c16_valloc_c16__pkc8_rkpkc8_rvstr_c16_UtfEncodingErrorPolicy_pkc16, UtfEncodingResult_pkc8, char, vstr_c16, 2)
ENC(Utf32Le_Encode_pkc8_c32_valloc_c32__pkc8_rkpkc8_rvstr_c32_UtfEncodingErrorPolicy_pkc32, UtfEncodingResult_pkc8, char, vstr_c32, 3)
ENC(Utf32Be_Encode_pkc8_c32_valloc_c32__pkc8_rkpkc8_rvstr_c32_UtfEncodingErrorPolicy_pkc32, UtfEncodingResult_pkc8, char, vstr_c32, 4)
ENC(Utf16Le_Encode_pkc16_c16_valloc_c16__pkc16_rkpkc16_rvstr_c16_UtfEncodingErrorPolicy_pkc16, UtfEncodingResult_pkc16, uint16_t, vstr_c16, 1)
ENC(Utf16Be_Encode_pkc16_c16_valloc_c16__pkc16_rkpkc16_rvstr_c16_UtfEncodingErrorPolicy_pkc16, UtfEncodingResult_pkc16, uint16_t, vstr_c16, 2)
ENC(Utf32Le_Encode_pkc16_c32_valloc_c32__pkc16_rkpkc16_rvstr_c32_UtfEncodingErrorPolicy_pkc32, UtfEncodingResult_pkc16, uint16_t, vstr_c32, 3)
ENC(Utf32Be_Encode_pkc16_c32_valloc_c32__pkc16_rkpkc16_rvstr_c32_UtfEncodingErrorPolicy_pkc32, UtfEncodingResult_pkc16, uint16_t, vstr_c32, 4)
#include "gen.c"
static struct vpair_Utf8_vstr_c8 a0; static struct vpair_Utf16Le_vstr_c16 a1; static struct vpair_Utf16Be_vstr_c16 a2; static struct vpair_Utf32Le_vstr_c32 a3; static struct vpair_Utf32Be_vstr_c32 a4;
static char b8[1]; static uint16_t b16[1]; static uint32_t b32[1];
#define H_WRITE(NAME, CH, SVT, FN, SRC8) \
void h_write_##NAME(void) { struct CEncodedStreamWriter w; vostream os; os.writes = 0; w.mOutputStream = &os; w.mEncodingErrorPolicy = nondet_bool() ? 1 : 0; w.mUtfToolset.index = nondet_int(); __CPROVER_assume(w.mUtfToolset.index >= 0 && w.mUtfToolset.index <= 4); \
  w.mUtfToolset.alt[0] = &a0; w.mUtfToolset.alt[1] = &a1; w.mUtfToolset.alt[2] = &a2; w.mUtfToolset.alt[3] = &a3; w.mUtfToolset.alt[4] = &a4; a0.second.data = b8; a1.second.data = b16; a2.second.data = b16; a3.second.data = b32; a4.second.data = b32; \
  a0.second.size = nondet_size_t(); a1.second.size = nondet_size_t(); a2.second.size = nondet_size_t(); a3.second.size = nondet_size_t(); a4.second.size = nondet_size_t();   /* the buffers hold anything from an earlier call */ \
  size_t n = nondet_size_t(); __CPROVER_assume(n <= ((size_t)1 << 40)); CH* src = malloc((n ? n : 1) * sizeof(CH)); __CPROVER_assume(src != 0); SVT s; s.data = src; s.size = n; g_enc_calls = 0; __verif_exc = 0; int i = w.mUtfToolset.index; \
  int ret = FN(&w, &s); \
  void* buf = i == 0 ? (void*)&a0.second : i == 1 ? (void*)&a1.second : i == 2 ? (void*)&a2.second : i == 3 ? (void*)&a3.second : (void*)&a4.second; size_t width = i == 0 ? 1 : (i <= 2 ? 2 : 4); const void* bufdata = i == 0 ? (const void*)b8 : (i <= 2 ? (const void*)b16 : (const void*)b32); \
  VERIF_ASSERT("C13,C20", __verif_exc == 0, "writing raises nothing"); \
  if (SRC8 && i == 0) { VERIF_ASSERT("C13", ret == 0 && g_enc_calls == 0 && os.writes == 1 && os.ptr == (const char*)src && os.n == (long)n, "UTF-8 text to a UTF-8 stream is written verbatim, as one block"); } \
  else { VERIF_ASSERT("C13", g_enc_calls == 1 && g_enc_in == src && g_enc_end == src + n && g_enc_kind == i && g_enc_out == buf && g_enc_after_clear && g_enc_policy == w.mEncodingErrorPolicy, "the whole text is handed, in one piece, to the encoder of the configured encoding with the configured error policy, into that encoding's emptied buffer"); \
    VERIF_ASSERT("C13", g_enc_code != 0 ? (ret == g_enc_code && os.writes == 0) : (ret == 0 && os.writes == 1 && os.ptr == (const char*)bufdata && os.n == (long)(g_enc_units * width)), "on success exactly the buffer's units (count * unit width bytes) are written; an encoding error is returned and nothing is written"); } \
  VERIF_CANARY(); }
H_WRITE(c8, char, vsv_c8, verif_inst_write_c8__rCEncodedStreamWriter_rkvsv_c8, 1)
H_WRITE(c16, uint16_t, vsv_c16, verif_inst_write_c16__rCEncodedStreamWriter_rkvsv_c16, 0)
/*@jobs
job entry=h_write_c8 props=C13,C20,C02 mode=direct unwind=3
job entry=h_write_c16 props=C13,C20,C02 mode=direct unwind=3
@*/
