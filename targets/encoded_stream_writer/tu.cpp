// extraction TU: CEncodedStreamWriter::Write (convert_utf.h) - std::visit over the variant of (encoder, buffer) pairs becomes a switch over the
// variant's index; the per-encoding Encode functions are contract-only (proved in utf_transcode / utf_endian).
#include "bitserializer/conversion_detail/convert_utf.h"
namespace verif_inst {
using namespace BitSerializer::Convert::Utf;
UtfEncodingErrorCode write_c8(CEncodedStreamWriter& w, const std::string_view& s) { return w.Write(s); }
UtfEncodingErrorCode write_c16(CEncodedStreamWriter& w, const std::u16string_view& s) { return w.Write(s); }
}
