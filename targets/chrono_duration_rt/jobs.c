/* job declarations only: bounded native stand-in for duration <-> ISO-8601 text (native.cpp) */
/*@jobs
for U in ns us ms s min h d:
  job entry=dur_{U} props=C14,C15 mode=native bounded=counts_-100000..100000,_the_64_extreme_counts_and_1,000,000_pseudo-random_counts_of_every_magnitude_(thorough:_10,000,000) desc=every_duration_prints_as_the_ISO-8601_duration_an_independent_formatter_produces_and_parses_back_to_the_identical_duration canary=off
for U in ms s min h:
  job entry=pdur_{U} props=C15 mode=native bounded=1,000,000_pseudo-random_designator_texts_(W/D/H/M/S_parts_of_every_magnitude_up_to_19_digits,_1/8_near_the_target's_limit,_signed;_thorough:_10,000,000) desc=a_valid_ISO-8601_duration_parses_to_exactly_the_denoted_duration_when_the_target_can_represent_it_and_raises_out_of_range_otherwise_(never_a_wrapped_value) canary=off
@*/
