// Bounded stand-in (NOT a proof): std::chrono::duration <-> ISO-8601 duration text (convert_chrono.h To(duration -> string), To(string -> duration))
// on the REAL code: pseudo-random counts over the whole int64 range + the 64 extreme counts + all small counts, for each unit; the rendered text is
// compared with an independent formatter written in __int128 arithmetic, and must parse back to the identical duration.
#include "bitserializer/convert.h"
#include <chrono>
#include <cstdio>
#include <cstring>
#include <string>
using namespace std::chrono; using namespace BitSerializer;
typedef __int128 mint; typedef duration<long, std::ratio<86400>> days_t;
static long evals = 0, fails = 0; static const char* cur;
static void fail(const std::string& w) { if (fails++ < 5) printf("FAIL %s %s\n", cur, w.c_str()); }
static std::string u128(mint v) { if (v == 0) return "0"; std::string s; while (v > 0) { s.insert(s.begin(), (char)('0' + (int)(v % 10))); v /= 10; } return s; }
template <class D> static std::string expect(long c) {           /* independent formatter: [-]P[nD][T[nH][nM][n[.f]S]] */
  if (c == 0) return "PT0S"; const mint num = D::period::num, den = D::period::den; bool neg = c < 0; mint ticks = neg ? -(mint)c : (mint)c;
  mint total_num = ticks * num;                      /* duration = total_num / den seconds */
  mint secs = total_num / den, frac = total_num % den;   /* frac/den of a second */
  mint d = secs / 86400, h = secs % 86400 / 3600, m = secs % 3600 / 60, s = secs % 60;
  std::string r = neg ? "-P" : "P"; if (d) r += u128(d) + "D";
  if (h || m || s || frac) { r += "T"; if (h) r += u128(h) + "H"; if (m) r += u128(m) + "M";
    if (s || frac) { r += u128(s); if (frac) { mint digits = frac * (1000000000 / den); char b[16]; snprintf(b, sizeof b, "%09ld", (long)digits); std::string f = b; int keep = den == 1000 ? 3 : den == 1000000 ? 6 : 9; f = f.substr(0, keep); while (!f.empty() && f.back() == '0') f.pop_back(); r += "." + f; } r += "S"; } }
  return r; }
template <class D> static void one(long c) { D dur(c); ++evals; std::string text, exp = expect<D>(c);
  try { text = Convert::To<std::string>(dur); } catch (const std::exception& e) { fail(std::string("render raised ") + e.what() + " for count " + std::to_string(c)); return; }
  /* a whole number of seconds in a sub-second unit is rendered "<n>.0S" by the code; ISO-8601 allows both spellings, so the oracle accepts exactly that one variant */
  if (text != exp && D::period::den > 1) { size_t k = text.rfind(".0S"); if (k != std::string::npos && k + 3 == text.size()) { std::string t2 = text.substr(0, k) + "S"; if (t2 == exp) exp = text; } }
  if (text != exp) { fail("count " + std::to_string(c) + " rendered '" + text + "' expected '" + exp + "'"); return; }
  try { D back = Convert::To<D>(text); if (back != dur) fail("'" + text + "' parsed back to " + std::to_string(back.count()) + " instead of " + std::to_string(c)); }
  catch (const std::exception& e) { fail("'" + text + "' does not parse back: " + e.what()); } }
template <class D> static void sweep(const char* name, long samples) { cur = name; evals = fails = 0; unsigned long long x = 0x9E3779B97F4A7C15ull;
  for (long c = -100000; c <= 100000; c++) one<D>(c);
  for (int i = 0; i < 64; i++) one<D>((i & 1) ? INT64_MAX - (i >> 1) : INT64_MIN + (i >> 1));
  for (long i = 0; i < samples; i++) { x ^= x << 13; x ^= x >> 7; x ^= x << 17; one<D>((long)x); one<D>((long)x >> (i % 60)); }
  printf("RESULT %s evaluations=%ld failures=%ld range=counts -100000..100000, the 64 extreme counts and %ld pseudo-random counts of every magnitude, render vs an independent __int128 formatter + parse back\n", name, evals, fails, 2 * samples); }
// ---- text -> duration for designator texts with parts of EVERY magnitude (weeks, days, hours, minutes, seconds; up to 19 digits each) ----
template <class D> static void parse_parts(const char* name, long samples) { cur = name; evals = fails = 0; const mint num = D::period::num, den = D::period::den; unsigned long long x = 0xA0761D6478BD642Full; long accepted = 0, refused = 0;
  static const char desig[5] = {'W', 'D', 'H', 'M', 'S'}; static const long secs_of[5] = {604800, 86400, 3600, 60, 1};
  for (long i = 0; i < samples; i++) { x ^= x << 13; x ^= x >> 7; x ^= x << 17; unsigned long long r = x * 0x9E3779B97F4A7C15ull; unsigned mask = (unsigned)(r % 31) + 1; bool neg = (r >> 8) % 4 == 0;
    std::string text = neg ? "-P" : "P"; mint total = 0; bool exact = true, timeOpen = false; unsigned long long y = x;
    for (int k = 0; k < 5; k++) if (mask & (1u << k)) { y ^= y << 13; y ^= y >> 7; y ^= y << 17; unsigned long long v = y >> ((y >> 58) % 64); if ((y >> 50) % 8 == 0) v = (unsigned long long)(((mint)INT64_MAX * num / den) / secs_of[k]) + (y % 5) - 2;   /* near the target's limit for this designator */
        if ((y >> 46) % 8 == 1) { static const unsigned long long fs[] = {7, 24, 60, 168, 1000, 1440, 3600, 10080, 86400, 604800, 1000000, 1000000000}; unsigned long long f = fs[(y >> 20) % 12], j = 1 + (y >> 4) % (f - 1);   /* counts whose product with a unit factor wraps around 2^64 to a small number */
          v = (unsigned long long)((((mint)1 << 64) * j) / f) + 1 + (y % 4); }
        if (v >= 10000000000000000000ull) v /= 10; if (k >= 2 && !timeOpen) { text += "T"; timeOpen = true; } text += std::to_string(v); text += desig[k];
        mint part = (mint)v * secs_of[k] * den; if (part % num) exact = false; total += part / num; }
    if (!exact) continue;                                   /* a part that is not a whole number of target ticks: what the parser does with it is not decided here */
    mint ticks = neg ? -total : total; bool in_range = ticks >= (mint)INT64_MIN && ticks <= (mint)INT64_MAX; ++evals;
    try { D d = Convert::To<D>(text); ++accepted; if (!in_range) fail("'" + text + "' is beyond the target's range but parsed to " + std::to_string(d.count()) + " instead of raising"); else if ((mint)d.count() != ticks) fail("'" + text + "' parsed to " + std::to_string(d.count()) + " instead of " + std::to_string((long)ticks)); }
    catch (const std::out_of_range& e) { ++refused; if (in_range) fail("'" + text + "' is representable (" + std::to_string((long)ticks) + ") but raised " + e.what()); }
    catch (const std::exception& e) { fail("'" + text + "' raised " + e.what()); } }
  printf("RESULT %s evaluations=%ld failures=%ld range=%ld pseudo-random ISO-8601 durations built from W/D/H/M/S parts of every magnitude up to 19 digits (1/8 near the target's limit, 1/8 at the wrap-around points of the unit factors), signed: accepted %ld exact, refused %ld with out_of_range, decided by __int128 arithmetic\n", name, evals, fails, samples, accepted, refused); }
int main(int argc, char** argv) { const char* w = argc > 1 ? argv[1] : ""; bool thorough = argc > 2 && !strcmp(argv[2], "thorough"); long n = thorough ? 5000000 : 500000;
  if (!strcmp(w, "dur_ns")) sweep<nanoseconds>("dur_ns", n); else if (!strcmp(w, "dur_us")) sweep<microseconds>("dur_us", n); else if (!strcmp(w, "dur_ms")) sweep<milliseconds>("dur_ms", n);
  else if (!strcmp(w, "dur_s")) sweep<seconds>("dur_s", n); else if (!strcmp(w, "dur_min")) sweep<minutes>("dur_min", n); else if (!strcmp(w, "dur_h")) sweep<hours>("dur_h", n); else if (!strcmp(w, "dur_d")) sweep<days_t>("dur_d", n);
  else if (!strcmp(w, "pdur_ms")) parse_parts<milliseconds>("pdur_ms", n * 2); else if (!strcmp(w, "pdur_s")) parse_parts<seconds>("pdur_s", n * 2); else if (!strcmp(w, "pdur_min")) parse_parts<minutes>("pdur_min", n * 2); else if (!strcmp(w, "pdur_h")) parse_parts<hours>("pdur_h", n * 2);
  else { puts("unknown job"); return 2; } return 0; }
