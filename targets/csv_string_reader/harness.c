/* CCsvStringReader::ParseNextLine and ::UnescapeValue (src/csv/csv_readers.cpp:116-222): the in-memory CSV reader's RFC 4180 scanner.
   STEP contracts (loop bodies outlined mechanically, proved from an ARBITRARY loop state, i.e. for any position in a document of any length):
   - the line scanner's step is exactly one transition of the RFC 4180 automaton: inside a quoted field (odd number of DQUOTEs so far in
     the field) nothing but a DQUOTE matters; outside, the separator ends the field, LF ends the record - a CR directly in front of it is
     not part of the last field (CRLF) - every other character belongs to the field;
   - the un-escaper's step copies every character of the quoted field's interior except the second DQUOTE of each pair ("" -> ").
   FUNCTION level (modular, steps replaced by their contracts, loop contracts close the loops for every length): every field the scanner
   reports lies inside the document, fields are contiguous (the next one starts right behind the delimiter), the scan position only moves
   forward and ends behind the record; the un-escaper reads only the interior of the value, writes only inside its buffer, and rejects a
   value that does not start and end with a DQUOTE.  C09 (reader side, unbounded); the composition into "the same rows as an independent
   RFC 4180 parser" is additionally checked for all short documents in csv_bounded. */
#include "models/prelude.h"
#include "models/sv.h"
#include <stdlib.h>
typedef struct { char* data; size_t size; size_t cap; } vstr_c8;
typedef struct { size_t n; size_t last_off, last_size; _Bool last_esc; _Bool inside; _Bool contiguous; size_t next_start; } vvec_CValueMeta;
typedef struct { int _opaque; } vvec_vstr_c8;
static size_t g_doc_size, g_pending_next;
static inline char* vstr_c8_data(vstr_c8* s) { return s->data; }
static inline size_t vstr_c8_size___k(const vstr_c8* s) { return s->size; }
static inline char* vstr_c8_op_index__u64(vstr_c8* s, unsigned long i) { __CPROVER_assert(i < s->size, "MODEL: std::string::operator[] index < size() for writing"); return &s->data[i]; }
static inline void vstr_c8_resize__u64(vstr_c8* s, unsigned long n) { if (n > s->cap) { s->data = malloc(n); __CPROVER_assume(s->data != 0); s->cap = n; } s->size = n; }
static inline void vvec_CValueMeta_clear(vvec_CValueMeta* v) { v->n = 0; v->inside = 1; v->contiguous = 1; }
static inline size_t vvec_CValueMeta_size___k(const vvec_CValueMeta* v) { return v->n; }
static inline _Bool vvec_CValueMeta_empty___k(const vvec_CValueMeta* v) { return v->n == 0; }
static inline void* vvec_CValueMeta_emplace_back_rku64_u64_b__rku64_xu64_xb(vvec_CValueMeta* v, const unsigned long* off, unsigned long* size, _Bool* esc) {
  if (!(*off <= g_doc_size && *size <= g_doc_size - *off)) v->inside = 0; if (v->n > 0 && *off != v->next_start) v->contiguous = 0; v->next_start = g_pending_next;
  v->n++; v->last_off = *off; v->last_size = *size; v->last_esc = *esc; static long cell[4]; return cell; }
#include "gen.h"
#define F1 CCsvStringReader_ParseNextLine__rvvec_CValueMeta
#define F2 CCsvStringReader_UnescapeValue__vsv_c8
#define CAT_(a, b) a##b
#define CAT(a, b) CAT_(a, b)
#define NPOS 18446744073709551615UL
#ifdef OUTER
/* ---- step contracts as stubs (what the step jobs below prove), with ghosts for the function-level obligations ---- */
static size_t g_steps; static _Bool g_step_pos_ok; static vvec_CValueMeta* g_vals;
int CAT(F1, __loop2_body_stub)(struct CAT(F1, __loop2_env)* e) { struct CCsvStringReader* s = *e->self; size_t p = s->mCurrentPos; g_steps++;
  if (!(p < s->mSourceString.size)) g_step_pos_ok = 0;
  int kind = nondet_int(); __CPROVER_assume(kind >= 0 && kind <= 3);
  if (kind == 1) { *e->endValuePos = p; s->mCurrentPos = p + 1; *e->isSeparatorFound = 1; g_pending_next = p + 1; return 1; }            /* separator outside quotes */
  if (kind == 2) { unsigned long cr = *e->precedingCrPos; *e->endValuePos = (cr != NPOS && cr + 1 == p) ? p - 1 : p; s->mCurrentPos = p + 1; *e->isEndLine = 1; return 1; }   /* LF outside quotes: CR directly in front is stripped */
  if (kind == 3) (*e->doubleQuotesCount)++;                                                                                            /* DQUOTE */
  else if (nondet_bool()) *e->precedingCrPos = p;                                                                                      /* CR */
  s->mCurrentPos = p + 1; return 0; }
#define VERIF_STEP_CCsvStringReader_ParseNextLine__rvvec_CValueMeta__loop2(e) CCsvStringReader_ParseNextLine__rvvec_CValueMeta__loop2_body_stub(e)
static size_t g_u_steps; static _Bool g_u_ok;
int CAT(F2, __loop1_body_stub)(struct CAT(F2, __loop1_env)* e) { g_u_steps++; size_t i = *e->i; if (!(i >= 1 && i + 1 < e->value->size && *e->outIndex < i)) g_u_ok = 0; if (nondet_bool()) (*e->outIndex)++; return 0; }
#define VERIF_STEP_CCsvStringReader_UnescapeValue__vsv_c8__loop1(e) CCsvStringReader_UnescapeValue__vsv_c8__loop1_body_stub(e)
#define VERIF_LOOP_CCsvStringReader_ParseNextLine__rvvec_CValueMeta_1 \
  __CPROVER_assigns(isEndLine, self->mCurrentPos, g_steps, g_step_pos_ok, out_values->n, out_values->last_off, out_values->last_size, out_values->last_esc, out_values->inside, out_values->contiguous, out_values->next_start, g_pending_next VERIF_TMPS_CCsvStringReader_ParseNextLine__rvvec_CValueMeta) \
  __CPROVER_loop_invariant(self->mCurrentPos <= totalSize && totalSize == g_doc_size && self->mSourceString.size == totalSize && g_step_pos_ok && out_values->inside && out_values->contiguous && g_vals == out_values && out_values->n <= self->mCurrentPos + (isEndLine ? 1u : 0u) && (out_values->n == 0 || isEndLine || out_values->next_start == self->mCurrentPos) && (!isEndLine || out_values->n >= 1) && self->mCurrentPos >= __CPROVER_loop_entry(self->mCurrentPos))
#define VERIF_LOOP_CCsvStringReader_ParseNextLine__rvvec_CValueMeta_2 \
  __CPROVER_assigns(isEndLine, endValuePos, doubleQuotesCount, precedingCrPos, isSeparatorFound, self->mCurrentPos, g_steps, g_step_pos_ok, g_pending_next) \
  __CPROVER_loop_invariant(startValuePos <= self->mCurrentPos && self->mCurrentPos <= totalSize && g_step_pos_ok && !isEndLine && !isSeparatorFound && endValuePos == totalSize && (precedingCrPos == NPOS || (startValuePos <= precedingCrPos && precedingCrPos < self->mCurrentPos))) \
  __CPROVER_decreases(totalSize - self->mCurrentPos)
#define VERIF_AFTER_LOOP_CCsvStringReader_ParseNextLine__rvvec_CValueMeta_2 __CPROVER_assert(startValuePos <= endValuePos && endValuePos <= totalSize && endValuePos <= self->mCurrentPos, "C09: a field is delimited inside the document, in front of the scan position");
#define VERIF_LOOP_CCsvStringReader_UnescapeValue__vsv_c8_1 \
  __CPROVER_assigns(i, outIndex, g_u_steps, g_u_ok) \
  __CPROVER_loop_invariant(i >= 1 && i <= endValuePos && outIndex <= i - 1 && g_u_ok && g_u_steps == i - 1 && endValuePos == value.size - 1 && self->mTempValueBuffer.size == value.size) \
  __CPROVER_decreases(endValuePos - i)
#endif
#include "gen.c"
#ifndef OUTER
void h_scan_step(void) { struct CCsvStringReader s; struct CCsvStringReader* sp = &s; size_t p = nondet_size_t(), total = nondet_size_t(); __CPROVER_assume(p < total && total <= ((size_t)1 << 50));
  char c = nondet_char(); char buf[1]; buf[0] = c; s.mSourceString.size = total;
#pragma CPROVER check push
#pragma CPROVER check disable "pointer-overflow"
  s.mSourceString.data = buf - p;                                 /* only the character at the scan position exists: any other read is a failed pointer obligation */
#pragma CPROVER check pop
  s.mCurrentPos = p; s.mSeparator = nondet_char(); __CPROVER_assume(s.mSeparator == ',' || s.mSeparator == ';' || s.mSeparator == '\t' || s.mSeparator == ' ' || s.mSeparator == '|');
  unsigned long q = nondet_ulong(), q0 = q, end = nondet_ulong(), end0 = end, cr = nondet_ulong(), cr0 = cr; __CPROVER_assume(q < (1ul << 62) && (cr == NPOS || cr < p)); _Bool isEnd = 0, sepFound = 0, ret = 0;
  struct CAT(F1, __loop2_env) e; e.isEndLine = &isEnd; e.doubleQuotesCount = &q; e.endValuePos = &end; e.precedingCrPos = &cr; e.isSeparatorFound = &sepFound; e.self = &sp; e.__ret = &ret; __verif_exc = 0;
  int rc = CAT(F1, __loop2_body)(&e);
  _Bool inq = q0 % 2 == 1;
  VERIF_ASSERT("C09", __verif_exc == 0 && (rc == 0 || rc == 1) && s.mCurrentPos == p + 1, "every step consumes exactly the character at the scan position and raises nothing");
  VERIF_ASSERT("C09", c != '"' || (rc == 0 && q == q0 + 1 && !isEnd && !sepFound && end == end0 && cr == cr0), "a DQUOTE only toggles 'inside a quoted field'");
  VERIF_ASSERT("C09", !(c == s.mSeparator && !inq) || (rc == 1 && sepFound && !isEnd && end == p && q == q0), "the separator outside quotes ends the field in front of it");
  VERIF_ASSERT("C09", !(c == '\n' && !inq) || (rc == 1 && isEnd && !sepFound && q == q0 && end == ((cr0 != NPOS && cr0 + 1 == p) ? p - 1 : p)), "LF outside quotes ends the record; a CR directly in front of it is not part of the last field (CRLF), any other CR is");
  VERIF_ASSERT("C09", !(c != '"' && !(c == s.mSeparator && !inq) && !(c == '\n' && !inq)) || (rc == 0 && !isEnd && !sepFound && q == q0 && end == end0 && cr == (c == '\r' ? p : cr0)), "every other character - and every character inside quotes - belongs to the field (the position of a CR is remembered)");
  VERIF_CANARY(); }
void h_unescape_step(void) { struct CCsvStringReader s; struct CCsvStringReader* sp = &s; size_t n = nondet_size_t(), i = nondet_size_t(); __CPROVER_assume(n >= 3 && n <= ((size_t)1 << 50) && i >= 1 && i < n - 1);
  char c = nondet_char(); char buf[1]; buf[0] = c; vsv_c8 value; value.size = n;
#pragma CPROVER check push
#pragma CPROVER check disable "pointer-overflow"
  value.data = buf - i;
#pragma CPROVER check pop
  size_t out = nondet_size_t(), out0 = out; __CPROVER_assume(out < i); char cell[1]; cell[0] = nondet_char(); char cell0 = cell[0];
#pragma CPROVER check push
#pragma CPROVER check disable "pointer-overflow"
  s.mTempValueBuffer.data = cell - out; s.mTempValueBuffer.size = n; s.mTempValueBuffer.cap = n;     /* only the cell at outIndex exists */
#pragma CPROVER check pop
  unsigned long q = nondet_ulong(), q0 = q; __CPROVER_assume(q < (1ul << 62)); vsv_c8 ret; struct CAT(F2, __loop1_env) e; e.value = &value; e.outIndex = &out; e.doubleQuotesCount = &q; e.i = &i; e.self = &sp; e.__ret = &ret; __verif_exc = 0;
  int rc = CAT(F2, __loop1_body)(&e);
  _Bool second = c == '"' && q0 % 2 == 1;       /* the second DQUOTE of a pair */
  VERIF_ASSERT("C09", rc == 0 && __verif_exc == 0 && q == q0 + (c == '"' ? 1 : 0), "the un-escaper's step raises nothing and counts DQUOTEs");
  VERIF_ASSERT("C09", second ? (out == out0 && cell[0] == cell0) : (out == out0 + 1 && cell[0] == c), "every character of the interior is copied once, in order, except the second DQUOTE of each pair");
  VERIF_CANARY(); }
#else
void h_scan_outer(void) { struct CCsvStringReader s; vvec_CValueMeta vals; vals.n = nondet_size_t(); vals.inside = 1; vals.contiguous = 1; g_vals = &vals; s.mRowValuesMeta.n = 0;
  size_t total = nondet_size_t(); __CPROVER_assume(total <= ((size_t)1 << 50)); g_doc_size = total; s.mSourceString.size = total; s.mSourceString.data = 0; s.mCurrentPos = nondet_size_t(); size_t p0 = s.mCurrentPos;
  s.mLineNumber = nondet_ulong(); __CPROVER_assume(s.mLineNumber < (1ul << 62)); s.mSeparator = ','; g_steps = 0; g_step_pos_ok = 1; __verif_exc = 0;
  _Bool ret = F1(&s, &vals);
  VERIF_ASSERT("C09,C02", __verif_exc == 0 && g_step_pos_ok, "the scanner raises nothing and only ever examines positions inside the document");
  VERIF_ASSERT("C09", p0 >= total ? (!ret && g_steps == 0 && s.mCurrentPos == p0) : (ret && vals.n >= 1 && s.mCurrentPos >= p0 && s.mCurrentPos <= total), "at the end of the document nothing is parsed; otherwise one record with at least one field is delivered and the scan position moves forward, staying inside the document");
  VERIF_ASSERT("C09", vals.inside && vals.contiguous, "every field lies inside the document and each field starts directly behind the separator that ended the previous one");
  VERIF_CANARY(); }
void h_unescape_outer(void) { struct CCsvStringReader s; s.mTempValueBuffer.data = 0; s.mTempValueBuffer.size = 0; s.mTempValueBuffer.cap = 0; s.mLineNumber = nondet_ulong();
  size_t n = nondet_size_t(); __CPROVER_assume(n <= 4096); char* d = malloc(n == 0 ? 1 : n); __CPROVER_assume(d != 0); vsv_c8 v; v.data = d; v.size = n; g_u_steps = 0; g_u_ok = 1; __verif_exc = 0;
  vsv_c8 r = F2(&s, v);
  _Bool framed = n >= 2 && d[0] == '"' && d[n - 1] == '"';
  VERIF_ASSERT("C09,C20", framed ? __verif_exc == 0 : __verif_exc == EXC_ParsingException, "a value that does not start and end with a DQUOTE is rejected with ParsingException; a framed one is never rejected");
  VERIF_ASSERT("C09,C02", __verif_exc != 0 || (g_u_ok && g_u_steps == n - 2 && r.size <= n - 2 && r.data == s.mTempValueBuffer.data && r.size == s.mTempValueBuffer.size), "exactly the interior characters are examined, one step each, and the result is the buffer filled by the steps");
  VERIF_CANARY(); }
#endif
/*@jobs
job entry=h_scan_step props=C09,C02 mode=direct unwind=3
job entry=h_unescape_step props=C09,C02 mode=direct unwind=3
job entry=h_scan_outer props=C09,C02 mode=direct loops=1 unwind=3 defs=OUTER
job entry=h_unescape_outer props=C09,C20,C02 mode=direct loops=1 unwind=3 defs=OUTER
@*/
