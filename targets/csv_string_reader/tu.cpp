// extraction TU: the real translation unit of the CSV readers; CCsvStringReader's line scanner and un-escaper (loop bodies outlined as steps)
#include "../../../repo/src/csv/csv_readers.cpp"
