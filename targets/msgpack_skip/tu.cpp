// extraction TU: SkipValueImpl / HandleMismatchedTypesPolicy of the in-memory MsgPack reader (real translation unit)
#include "../../../repo/src/msgpack/msgpack_readers.cpp"
