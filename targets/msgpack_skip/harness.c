/* Contract of SkipValueImpl(string_view, size_t&) (src/msgpack/msgpack_readers.cpp:253-306) enforced on the real body.
   Self-recursive calls go to SkipValueImpl__rec, a stub that behaves as the contract allows (modular induction on the nesting depth);
   the two element loops carry loop contracts (invariant + decreases), so the proof holds for every element count up to 2^32-1.
   This is the contract the reader proofs (msgpack_sreader) assume for their abstract SkipValueImpl. */
#include "models/prelude.h"
#include "models/sv.h"
#include "models/docwin.h"
#include "gen.h"
#include "spec/msgpack_spec.h"

size_t g_rec_calls;
void SkipValueImpl__vsv_c8_ru64__rec(vsv_c8 inputData, unsigned long* pos) {
  __CPROVER_assert(*pos <= inputData.size && __verif_exc == 0, "C05: precondition of the recursive call: position inside the document, no exception in flight");
  g_rec_calls++;
  if (nondet_bool()) { __verif_exc = EXC_ParsingException; return; }
  size_t np = nondet_size_t(); __CPROVER_assume(np > *pos && np <= inputData.size);   /* induction hypothesis = the contract enforced below */
  *pos = np;
}
#define VERIF_LOOP_SkipValueImpl__vsv_c8_ru64_1 \
  __CPROVER_assigns(i, *pos, __verif_exc, __verif_exc_code, g_rec_calls) \
  __CPROVER_loop_invariant(i <= extSize && __verif_exc == 0 && *pos <= inputData.size && *pos >= __CPROVER_loop_entry(*pos) + 2 * (size_t)i && g_rec_calls == 2 * (size_t)i) \
  __CPROVER_decreases(extSize - i)
#define VERIF_LOOP_SkipValueImpl__vsv_c8_ru64_2 \
  __CPROVER_assigns(i, *pos, __verif_exc, __verif_exc_code, g_rec_calls) \
  __CPROVER_loop_invariant(i <= extSize && __verif_exc == 0 && *pos <= inputData.size && *pos >= __CPROVER_loop_entry(*pos) + (size_t)i && g_rec_calls == (size_t)i) \
  __CPROVER_decreases(extSize - i)
#include "gen.c"

void h_skip(void) {
  struct docwin d; docwin_init(&d); mp_head h = mp_ref_head(d.wb, d.size - d.pos);
  vsv_c8 in; in.data = (const char*)d.data; in.size = d.size; unsigned long pos = d.pos; __verif_exc = 0; __verif_exc_code = 0; g_rec_calls = 0;
  SkipValueImpl__vsv_c8_ru64(in, &pos);
  _Bool at_end = d.pos == d.size; _Bool container = h.family == MPF_ARRAY || h.family == MPF_MAP;
  size_t payload = (h.family == MPF_STR || h.family == MPF_BIN || h.family == MPF_EXT) ? h.u : 0;
  size_t remaining = d.size - d.pos;
  VERIF_ASSERT("C05,C20,C02", __verif_exc == 0 || __verif_exc == EXC_ParsingException, "skipping raises nothing but ParsingException");
  VERIF_ASSERT("C05,C03", __verif_exc != 0 || (pos > d.pos && pos <= d.size), "a successful skip advances strictly and stays inside the document");
  VERIF_ASSERT("C05,C20", !at_end || __verif_exc == EXC_ParsingException, "skipping at the end of the document raises ParsingException");
  VERIF_ASSERT("C05,C20", !(!at_end && h.truncated) || __verif_exc == EXC_ParsingException, "a head cut by the end of the document raises ParsingException");
  VERIF_ASSERT("C05,C03,C07", !(!at_end && !h.truncated && !container && h.family != MPF_INVALID && payload <= remaining - h.head_len) || (__verif_exc == 0 && pos == d.pos + h.head_len + payload && g_rec_calls == 0), "a complete scalar/str/bin/ext value is skipped as exactly head + payload bytes");
  VERIF_ASSERT("C05,C20", !(!at_end && !h.truncated && !container && payload > remaining - h.head_len) || __verif_exc == EXC_ParsingException, "a str/bin/ext payload cut by the end of the document raises ParsingException");
  VERIF_ASSERT("C05,C03,C07", !(!at_end && !h.truncated && container && h.u == 0) || (__verif_exc == 0 && pos == d.pos + h.head_len && g_rec_calls == 0), "an empty array/map is skipped as exactly its head");
  VERIF_ASSERT("C05,C03,C07", !(__verif_exc == 0 && h.family == MPF_ARRAY) || (g_rec_calls == h.u && pos >= d.pos + h.head_len + h.u), "an array is skipped as its head followed by exactly count element skips");
  VERIF_ASSERT("C05,C03,C07", !(__verif_exc == 0 && h.family == MPF_MAP) || (g_rec_calls == 2 * h.u && pos >= d.pos + h.head_len + 2 * h.u), "a map is skipped as its head followed by exactly 2*count key/value skips");
  VERIF_ASSERT("C07", !(!at_end && h.family == MPF_INVALID) || __verif_exc != 0, "[KF-C07-c1-skipped] the never-used first byte 0xC1 is rejected, not skipped as a value");
  VERIF_CANARY();
}
/*@jobs
job entry=h_skip props=C05,C03,C20,C02,C07 mode=direct loops=1 unwind=40 kf=KF-C07-c1-skipped
@*/
