// extraction TU: the real MsgPack string writer AND the real MsgPack string reader in one translation unit, for the save-then-load lemmas (C01)
#include "../../../repo/src/msgpack/msgpack_writers.cpp"
#include "../../../repo/src/msgpack/msgpack_readers.cpp"
