// Native replay for msgpack_roundtrip: saves the counterexample's value with the REAL CMsgPackStringWriter, loads it back with the REAL
// CMsgPackStringReader (same policies) and compares.  Prints REPRODUCED when the loaded value differs, a valid value is refused, or the
// reader does not stop at the end of what was written.
#include "../../../repo/src/msgpack/msgpack_writers.cpp"
#include "../../../repo/src/msgpack/msgpack_readers.cpp"
#include "../../../repo/src/common/binary_stream_reader.cpp"
#include <cstdio>
#include <cstring>
#include "replay/replay_util.h"
using namespace BitSerializer; using namespace BitSerializer::MsgPack::Detail;
static ReplayDoc D; static SerializationOptions opt; static bool bad = false, done = false;
static void hex(const std::string& s) { for (unsigned char c : s) printf("%02X ", c); printf("\n"); }
template <class W, class R> static void rt(const char* tag, W v, bool expectFit = true) {
  if (D.entry != std::string("h_rt_") + tag) return; done = true;
  std::string out; { CMsgPackStringWriter w(out); w.WriteValue(v); } printf("saved: "); hex(out);
  CMsgPackStringReader r(out, opt); R t{}; bool ok = false, raised = false;
  try { ok = r.ReadValue(t); } catch (const std::exception& e) { raised = true; printf("load raised: %s\n", e.what()); }
  printf("loaded=%d raised=%d pos=%zu/%zu\n", ok, raised, r.GetPosition(), out.size());
  if (expectFit) bad = raised || !ok || std::memcmp(&t, &v, sizeof(R) < sizeof(W) ? sizeof(R) : sizeof(W)) != 0 || (long long)t != (long long)v || r.GetPosition() != out.size();
  else bad = !raised && ok;   /* a value that does not fit must not be delivered */
}
int main(int argc, char** argv) {
  if (argc < 2 || !D.load(argv[1])) { puts("cannot read replay file"); return 2; }
  opt.overflowNumberPolicy = D.has("opt.overflowNumberPolicy") && D.u64("opt.overflowNumberPolicy") == 0 ? OverflowNumberPolicy::Skip : OverflowNumberPolicy::ThrowError;
  opt.mismatchedTypesPolicy = D.has("opt.mismatchedTypesPolicy") && D.u64("opt.mismatchedTypesPolicy") == 0 ? MismatchedTypesPolicy::Skip : MismatchedTypesPolicy::ThrowError;
  long long sv = D.has("v") ? D.i64("v") : 0; unsigned long long uv = D.has("v") ? D.u64("v") : 0;
  rt<bool, bool>("b", uv != 0); rt<uint8_t, uint8_t>("u8", (uint8_t)uv); rt<uint16_t, uint16_t>("u16", (uint16_t)uv); rt<uint32_t, uint32_t>("u32", (uint32_t)uv); rt<uint64_t, uint64_t>("u64", (uint64_t)uv);
  rt<int8_t, int8_t>("i8", (int8_t)sv); rt<int16_t, int16_t>("i16", (int16_t)sv); rt<int32_t, int32_t>("i32", (int32_t)sv); rt<int64_t, int64_t>("i64", (int64_t)sv);
  { bool fits = sv >= INT32_MIN && sv <= INT32_MAX; rt<int64_t, int32_t>("i64_to_i32", (int64_t)sv, fits); }
  if (!done) { puts("no native replay for this harness (strings, headers, floats and timestamps are replayed through msgpack_writer / msgpack_sreader)"); puts("NOT-REPRODUCED"); return 0; }
  puts(bad ? "REPRODUCED: the value saved by the real writer is not what the real reader loads back" : "NOT-REPRODUCED"); return 0;
}
