/* Save-then-load lemmas for MessagePack at the codec level (C01), proved on the REAL code end to end: the real CMsgPackStringWriter method
   appends its bytes to the sink, the real CMsgPackStringReader method then reads exactly those bytes; the loaded value equals the saved one
   and the reader stops exactly behind what the writer produced.  Full argument domain, loop-free: one query per type is a complete proof.
   (The reference decoder is not involved: this is writer against reader, including the two spots where both deviate from the
   specification in the same way - timestamp 96 field order.)  The template dispatch above the scopes and the other archives are not covered. */
#include "models/prelude.h"
#include "models/sink.h"
#include "models/sv.h"
#include <stdlib.h>
static inline vsv_c8* vsv_c8_op_assign__rkvsv_c8(vsv_c8* s, const vsv_c8* o) { *s = *o; return s; }
#include "gen.h"
unsigned g_skip_calls;
void SkipValueImpl__vsv_c8_ru64(vsv_c8 inputData, unsigned long* pos) { g_skip_calls++; if (nondet_bool()) { __verif_exc = EXC_ParsingException; return; } size_t np = nondet_size_t(); __CPROVER_assume(np > *pos && np <= inputData.size); *pos = np; }
#include "gen.c"
static char verif_payload_anchor;
#define PRE vsink out; out.len = 0; out.base = 0; out.expect_bulk_ptr = 0; out.bulk_count = 0; out.bulk_ptr = 0; out.bulk_n = 0; out.bulk_at = 0; out.small_ops = 0; \
  struct CMsgPackStringWriter w; w.mOutputString = &out; struct SerializationOptions opt; opt.overflowNumberPolicy = nondet_bool() ? OverflowNumberPolicy_ThrowError : OverflowNumberPolicy_Skip; \
  opt.mismatchedTypesPolicy = nondet_bool() ? MismatchedTypesPolicy_ThrowError : MismatchedTypesPolicy_Skip; __verif_exc = 0; __verif_exc_code = 0; g_skip_calls = 0;
#define LOAD struct CMsgPackStringReader r; r.mInputData.data = (const char*)out.win; r.mInputData.size = out.len; r.mPos = 0; r.mSerializationOptions = &opt;
#define H_RT(TAG, CT, NONDET, EQ) \
void h_rt_##TAG(void) { PRE CT v = (CT)NONDET(); \
  CMsgPackStringWriter_WriteValue__##TAG(&w, v); \
  VERIF_ASSERT("C01,C06", __verif_exc == 0 && out.len >= 1 && out.len <= 9 && out.bulk_count == 0, "saving a scalar appends 1..9 bytes and never fails"); \
  LOAD CT t = (CT)NONDET(); _Bool ret = CMsgPackStringReader_ReadValue__r##TAG(&r, &t); \
  VERIF_ASSERT("C01,C07", __verif_exc == 0 && ret && (EQ) && r.mPos == out.len && g_skip_calls == 0, "loading what was saved yields the identical value and consumes exactly the bytes that were written, under every policy setting"); \
  VERIF_CANARY(); }
H_RT(b, _Bool, nondet_bool, t == v) H_RT(u8, unsigned char, nondet_uchar, t == v) H_RT(u16, unsigned short, nondet_ushort, t == v) H_RT(u32, unsigned int, nondet_uint, t == v) H_RT(u64, unsigned long, nondet_ulong, t == v)
H_RT(i8, signed char, nondet_schar, t == v) H_RT(i16, short, nondet_short, t == v) H_RT(i32, int, nondet_int, t == v) H_RT(i64, long, nondet_long, t == v)
static inline _Bool same_f32(float a, float b) { unsigned x, y; memcpy(&x, &a, 4); memcpy(&y, &b, 4); return x == y; }
static inline _Bool same_f64(double a, double b) { unsigned long x, y; memcpy(&x, &a, 8); memcpy(&y, &b, 8); return x == y; }
H_RT(f32, float, nondet_float, same_f32(t, v)) H_RT(f64, double, nondet_double, same_f64(t, v))
/* cross-width loads the archive performs for untyped consumers: a value saved as int64 loads into every integer type that can hold it */
void h_rt_i64_to_i32(void) { PRE long v = nondet_long(); CMsgPackStringWriter_WriteValue__i64(&w, v); LOAD int t = nondet_int(), t0 = t; _Bool ret = CMsgPackStringReader_ReadValue__ri32(&r, &t);
  _Bool fits = v >= -2147483648L && v <= 2147483647L;
  VERIF_ASSERT("C01,C04", fits ? (__verif_exc == 0 && ret && t == (int)v && r.mPos == out.len) : (t == t0 && (opt.overflowNumberPolicy == OverflowNumberPolicy_Skip ? (__verif_exc == 0 && !ret && r.mPos == out.len) : (__verif_exc == EXC_SerializationException && __verif_exc_code == SerializationErrorCode_Overflow))),
     "an int64 saved and loaded into int32 gives the same value when it fits; otherwise Overflow is raised or the value is skipped as a whole, target untouched - never a wrapped value");
  VERIF_CANARY(); }
void h_rt_nil(void) { PRE CMsgPackStringWriter_WriteValue__np(&w, (void*)0); LOAD void* t = 0; _Bool ret = CMsgPackStringReader_ReadValue__rnp(&r, &t);
  VERIF_ASSERT("C01", __verif_exc == 0 && ret && out.len == 1 && r.mPos == 1, "nil round-trips as one byte"); VERIF_CANARY(); }
void h_rt_str(void) { PRE vsv_c8 sv; sv.data = &verif_payload_anchor; sv.size = nondet_size_t(); out.expect_bulk_ptr = sv.data;
  CMsgPackStringWriter_WriteValue__vsv_c8(&w, sv);
  if (__verif_exc != 0) { VERIF_ASSERT("C01,C06", sv.size > 4294967295UL && out.len == 0, "only a text of 2^32 bytes or more is refused, and then nothing is written"); return; }
  size_t head = out.len - sv.size;
  VERIF_ASSERT("C01,C06", out.bulk_count <= 1 && (sv.size == 0 ? (out.bulk_count == 0 || out.bulk_n == 0) : (out.bulk_count == 1 && out.bulk_ptr == sv.data && out.bulk_n == sv.size && out.bulk_at == head)) && head >= 1 && head <= 5, "a text is saved as a head of 1..5 bytes followed by its bytes, verbatim, as one block");
  LOAD vsv_c8 t; t.data = 0; t.size = nondet_size_t(); _Bool ret = CMsgPackStringReader_ReadValue__rvsv_c8(&r, &t);
  VERIF_ASSERT("C01,C07", __verif_exc == 0 && ret && t.size == sv.size && t.data == (const char*)out.win + head && r.mPos == out.len, "loading delivers exactly the bytes behind the head, as many as were saved, and stops at the end of the value");
  VERIF_CANARY(); }
#define H_RT_SIZE(NAME, BEGIN, READ) \
void h_rt_##NAME(void) { PRE size_t n = nondet_size_t(); BEGIN(&w, n); \
  if (__verif_exc != 0) { VERIF_ASSERT("C01,C06", n > 4294967295UL && out.len == 0, "only a count of 2^32 or more is refused, and then nothing is written"); return; } \
  LOAD size_t t = nondet_size_t(); _Bool ret = READ(&r, &t); \
  VERIF_ASSERT("C01,C07", __verif_exc == 0 && ret && t == n && r.mPos == out.len && g_skip_calls == 0, "the element/byte count saved in a container header is the count loaded from it, and the reader stops right behind the header"); \
  VERIF_CANARY(); }
H_RT_SIZE(array, CMsgPackStringWriter_BeginArray__u64, CMsgPackStringReader_ReadArraySize__ru64)
H_RT_SIZE(map, CMsgPackStringWriter_BeginMap__u64, CMsgPackStringReader_ReadMapSize__ru64)
H_RT_SIZE(bin, CMsgPackStringWriter_BeginBinary__u64, CMsgPackStringReader_ReadBinarySize__ru64)
void h_rt_ts(void) { PRE struct CBinTimestamp ts; ts.Seconds = nondet_long(); ts.Nanoseconds = nondet_int(); __CPROVER_assume(ts.Nanoseconds >= 0 && ts.Nanoseconds <= 999999999);
  CMsgPackStringWriter_WriteValue__rkCBinTimestamp(&w, &ts);
  VERIF_ASSERT("C01,C06", __verif_exc == 0 && (out.len == 6 || out.len == 10 || out.len == 15), "a timestamp is saved in one of the three timestamp layouts");
  LOAD struct CBinTimestamp t; t.Seconds = nondet_long(); t.Nanoseconds = nondet_int(); _Bool ret = CMsgPackStringReader_ReadValue__rCBinTimestamp(&r, &t);
  VERIF_ASSERT("C01,C14", __verif_exc == 0 && ret && t.Seconds == ts.Seconds && t.Nanoseconds == ts.Nanoseconds && r.mPos == out.len, "every timestamp (any int64 seconds, nanoseconds 0..999999999) loads back to the identical seconds and nanoseconds");
  VERIF_CANARY(); }
/*@jobs
for T in b u8 u16 u32 u64 i8 i16 i32 i64 f32 f64 i64_to_i32 nil str array map bin ts:
  job entry=h_rt_{T} props=C01,C02 mode=direct unwind=20
@*/
