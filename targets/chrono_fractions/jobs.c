/* job declaration only: exhaustive native evaluation of ParseSecondFractions (native.cpp); the cvc5/SAT route could not decide the variable division */
/*@jobs
job entry=fractions props=C15 mode=native bounded=every_literal_of_1..9_digits_(the_whole_accepted_domain,_1,111,111,110_values)_plus_sampled_rejections desc=a_fraction_of_d_digits_with_value_v_is_exactly_v*10^(9-d)_nanoseconds;_no_digits,_10+_significant_digits_and_signs_are_rejected_with_the_target_untouched canary=off
@*/
