// Exhaustive evaluation (listed as "bounded", although the range is the whole accepted domain) of the REAL ParseSecondFractions<nanoseconds>:
// every literal of 1..D digits (D = 7 in the quick tier, 9 = the whole domain in the thorough tier; 10-digit literals are sampled) against
// v * 10^(9-d), plus the rejections (no digits, 10+ significant digits).
#include "bitserializer/convert.h"
#include <chrono>
#include <cstdio>
#include <cstring>
using namespace BitSerializer::Convert::Detail;
int main(int argc, char** argv) {
  bool thorough = argc > 2 && !strcmp(argv[2], "thorough"); int D = 9; (void)thorough; long evals = 0, fails = 0;
  static const long p10[10] = {1, 10, 100, 1000, 10000, 100000, 1000000, 10000000, 100000000, 1000000000};
  for (int d = 1; d <= D; d++) {
    char buf[16]; memset(buf, '0', d); buf[d] = 'Z'; buf[d + 1] = 0;
    for (long v = 0; v < p10[d]; v++) {
      std::chrono::nanoseconds out(-1); const char* p = ParseSecondFractions(buf, buf + d + 1, out); ++evals;
      if (p != buf + d || out.count() != v * p10[9 - d]) { if (fails++ < 5) printf("FAIL fractions '%.*s' -> %ld ns (ptr offset %ld), expected %ld\n", d, buf, (long)out.count(), p ? (long)(p - buf) : -1L, v * p10[9 - d]); }
      for (int i = d - 1; i >= 0; i--) { if (buf[i] == '9') buf[i] = '0'; else { buf[i]++; break; } }   /* next literal */
    }
  }
  { const char* bad[] = {"", "Z", "x1", "1234567890", "9999999999", "00000000001", "-1", "+1"}; for (auto b : bad) { std::chrono::nanoseconds out(-7); const char* p = ParseSecondFractions(b, b + strlen(b), out); ++evals; if (p != nullptr || out.count() != -7) { if (fails++ < 5) printf("FAIL fractions '%s' accepted or target touched\n", b); } }
    const char* zeros = "000000000000000Z"; std::chrono::nanoseconds out(-7); const char* p = ParseSecondFractions(zeros, zeros + 16, out); ++evals; if (p != zeros + 15 || out.count() != 0) { if (fails++ < 5) printf("FAIL fractions zeros\n"); } }
  printf("RESULT fractions evaluations=%ld failures=%ld range=every literal of 1..%d digits%s + rejections\n", evals, fails, D, D == 9 ? " (the whole accepted domain)" : ""); return 0; }
