// extraction TU: ISO-8601 duration text parsing To(string_view -> duration) of convert_chrono.h with its three lambdas.
// from_chars is a contract-only model; SafeDurationCast / SafeAddDuration (proved exact-or-out_of_range in chrono_guards), ParseSecondFractions
// (checked exhaustively in chrono_fractions) and Utf8::Encode are replaced by their contracts.
#include "bitserializer/convert.h"
namespace verif_inst {
using namespace BitSerializer::Convert::Detail;
void parse_dur_s(std::string_view in, std::chrono::seconds& out) { To(in, out); }
}
