/* ISO-8601 duration text parsing  To(string_view -> std::chrono::seconds)  with its three lambdas (convert_chrono.h:565-690), for every text
   length and any number of parts (loop contract on the part loop).  from_chars: contract-only segmentation model (value uninterpreted);
   SafeDurationCast / SafeAddDuration: their proved contracts, here as exact __int128 arithmetic that raises std::out_of_range instead of
   wrapping; ParseSecondFractions: its contract.
   C15: every part  <digits><designator>  contributes exactly  sign * value * unit(designator)  (W 604800 s, D 86400 s, H 3600 s, M 60 s, S 1 s)
   through the overflow-checked guards; the result is the exact sum of the contributions (ghost sum in __int128) or an exception
   (invalid_argument / out_of_range) - never a wrapped value; C02: all reads inside the text, no signed overflow, <cctype> preconditions.
   Not constrained: order / repetition of designators (PT1S1H is accepted as 3601 s), text behind a blank (the parser stops at white space
   by design), years / months in the date part are rejected by the code (checked: 'Y' never reaches a guard). */
#include "models/prelude.h"
#include "models/sv.h"
#include <stdlib.h>
typedef __int128 mint;
typedef struct { const char* ptr; int ec; } std_from_chars_result;
static inline int m_isdigit(int c) { __CPROVER_assert(c >= -1 && c <= 255, "MODEL: std::isdigit is called with a value representable as unsigned char or EOF (undefined behaviour otherwise, C 7.4p1)"); return c >= '0' && c <= '9'; }
static inline int m_isspace(int c) { __CPROVER_assert(c >= -1 && c <= 255, "MODEL: std::isspace is called with a value representable as unsigned char or EOF (undefined behaviour otherwise, C 7.4p1)"); return c == ' ' || (c >= 9 && c <= 13); }
#include "gen.h"
#define DIG(c) ((c) >= '0' && (c) <= '9')
#define PO(p) ((unsigned long)__CPROVER_POINTER_OFFSET(p))
static const char* g_txt; static size_t g_n; static _Bool g_neg;
static unsigned long g_lastval; static size_t g_desig_off; static _Bool g_have_val;     /* last numeric literal and where its designator stands */
static mint g_sum; static _Bool g_contract_ok = 1; static unsigned long g_parts;
std_from_chars_result m_std_from_chars_u64__pkc8_pkc8_ru64_i32(const char* first, const char* last, unsigned long* value, int base) { std_from_chars_result r;
  __CPROVER_assert(__CPROVER_same_object(first, last) && PO(first) <= PO(last) && __CPROVER_same_object(first, g_txt) && PO(last) == PO(g_txt) + g_n, "MODEL: from_chars is given a valid range that ends at the end of the text");
  size_t avail = (size_t)(PO(last) - PO(first)); if (!(avail >= 1 && DIG(first[0]))) { r.ec = 22; r.ptr = first; g_have_val = 0; return r; }
  size_t len = nondet_size_t(); __CPROVER_assume(len >= 1 && len <= avail && DIG(first[len - 1]) && (len == avail || !DIG(first[len])));
  int ec = nondet_bool() ? 34 : 0; unsigned long v = nondet_ulong(); r.ec = ec; r.ptr = first + len;
  if (ec == 0) { *value = v; g_lastval = v; g_have_val = 1; g_desig_off = (size_t)(PO(first) - PO(g_txt)) + len; } else g_have_val = 0; return r; }
const char* Detail_ParseSecondFractions_i64_std_ratio_1_1000000000__pkc8_pkc8_rchr_duration_i64_std_ratio_1_1000000000(const char* pos, const char* endPos, struct chr_duration_i64_std_ratio_1_1000000000* outTime) {
  __CPROVER_assert(__CPROVER_same_object(pos, endPos) && PO(pos) <= PO(endPos), "MODEL: ParseSecondFractions is given a valid range");
  size_t avail = (size_t)(PO(endPos) - PO(pos)); if (!(avail >= 1 && DIG(pos[0])) || nondet_bool()) return 0;
  size_t len = nondet_size_t(); __CPROVER_assume(len >= 1 && len <= avail && (len == avail || !DIG(pos[len])));
  long ns = nondet_long(); __CPROVER_assume(ns >= 0 && ns <= 999999999); outTime->__r = ns; g_desig_off = (size_t)(PO(pos) - PO(g_txt)) + len; return pos + len; }
/* SafeDurationCast<seconds>(duration<Rep, ratio<unit>>): exact value * unit, or out_of_range (proved in chrono_guards) */
static struct chr_duration_i64_std_ratio_1_1 cast_model(mint count, long unit, _Bool src_signed) { struct chr_duration_i64_std_ratio_1_1 r; r.__r = 0;
  char c = g_desig_off < g_n ? g_txt[g_desig_off] : 0; long want = c == 'W' ? 604800 : c == 'D' ? 86400 : c == 'H' ? 3600 : c == 'M' ? 60 : c == 'S' ? 1 : 0;
  /* a part of a negative duration is converted from its negated count; a count above 2^63 (no int64 negation) is converted from the unsigned count and the RESULT negated by the caller */
  _Bool direct = src_signed == g_neg && count == (g_neg ? -(mint)g_lastval : (mint)g_lastval); _Bool via_unsigned = g_neg && !src_signed && count == (mint)g_lastval && g_lastval > 9223372036854775808UL;
  if (!g_have_val || unit != want || !(direct || via_unsigned)) g_contract_ok = 0;
  g_parts++; mint exact = count * unit; if (exact > (mint)9223372036854775807L || exact < -(mint)9223372036854775807L - 1) { __verif_exc = EXC_std_out_of_range; return r; } r.__r = (long)exact; return r; }
struct chr_duration_i64_std_ratio_1_1 Detail_SafeDurationCast_chr_duration_i64_std_ratio_1_1_i64_std_ratio_604800_1__rkchr_duration_i64_std_ratio_604800_1(const struct chr_duration_i64_std_ratio_604800_1* d) { return cast_model((mint)d->__r, 604800, 1); }
struct chr_duration_i64_std_ratio_1_1 Detail_SafeDurationCast_chr_duration_i64_std_ratio_1_1_i64_std_ratio_86400_1__rkchr_duration_i64_std_ratio_86400_1(const struct chr_duration_i64_std_ratio_86400_1* d) { return cast_model((mint)d->__r, 86400, 1); }
struct chr_duration_i64_std_ratio_1_1 Detail_SafeDurationCast_chr_duration_i64_std_ratio_1_1_i64_std_ratio_3600_1__rkchr_duration_i64_std_ratio_3600_1(const struct chr_duration_i64_std_ratio_3600_1* d) { return cast_model((mint)d->__r, 3600, 1); }
struct chr_duration_i64_std_ratio_1_1 Detail_SafeDurationCast_chr_duration_i64_std_ratio_1_1_i64_std_ratio_60_1__rkchr_duration_i64_std_ratio_60_1(const struct chr_duration_i64_std_ratio_60_1* d) { return cast_model((mint)d->__r, 60, 1); }
struct chr_duration_i64_std_ratio_1_1 Detail_SafeDurationCast_chr_duration_i64_std_ratio_1_1_i64_std_ratio_1_1__rkchr_duration_i64_std_ratio_1_1(const struct chr_duration_i64_std_ratio_1_1* d) { return cast_model((mint)d->__r, 1, 1); }
struct chr_duration_i64_std_ratio_1_1 Detail_SafeDurationCast_chr_duration_i64_std_ratio_1_1_u64_std_ratio_604800_1__rkchr_duration_u64_std_ratio_604800_1(const struct chr_duration_u64_std_ratio_604800_1* d) { return cast_model((mint)d->__r, 604800, 0); }
struct chr_duration_i64_std_ratio_1_1 Detail_SafeDurationCast_chr_duration_i64_std_ratio_1_1_u64_std_ratio_86400_1__rkchr_duration_u64_std_ratio_86400_1(const struct chr_duration_u64_std_ratio_86400_1* d) { return cast_model((mint)d->__r, 86400, 0); }
struct chr_duration_i64_std_ratio_1_1 Detail_SafeDurationCast_chr_duration_i64_std_ratio_1_1_u64_std_ratio_3600_1__rkchr_duration_u64_std_ratio_3600_1(const struct chr_duration_u64_std_ratio_3600_1* d) { return cast_model((mint)d->__r, 3600, 0); }
struct chr_duration_i64_std_ratio_1_1 Detail_SafeDurationCast_chr_duration_i64_std_ratio_1_1_u64_std_ratio_60_1__rkchr_duration_u64_std_ratio_60_1(const struct chr_duration_u64_std_ratio_60_1* d) { return cast_model((mint)d->__r, 60, 0); }
struct chr_duration_i64_std_ratio_1_1 Detail_SafeDurationCast_chr_duration_i64_std_ratio_1_1_u64_std_ratio_1_1__rkchr_duration_u64_std_ratio_1_1(const struct chr_duration_u64_std_ratio_1_1* d) { return cast_model((mint)d->__r, 1, 0); }
/* SafeAddDuration(seconds&, seconds): exact sum or out_of_range, target untouched on failure */
void Detail_SafeAddDuration_i64_std_ratio_1_1_i64_std_ratio_1_1__rchr_duration_i64_std_ratio_1_1_rkchr_duration_i64_std_ratio_1_1(struct chr_duration_i64_std_ratio_1_1* target, const struct chr_duration_i64_std_ratio_1_1* src) {
  mint s = (mint)target->__r + src->__r; if (s > (mint)9223372036854775807L || s < -(mint)9223372036854775807L - 1) { __verif_exc = EXC_std_out_of_range; return; } target->__r = (long)s; g_sum += src->__r; }
#define VERIF_LOOP_lambda1_in_To_c8_i64_std_ratio_1_1_op_call__pkc8_pkc8_k_1 \
  __CPROVER_assigns(pos, isDatePart, duration.__r, g_sum, g_lastval, g_desig_off, g_have_val, g_contract_ok, g_parts, __verif_exc, __verif_exc_code VERIF_TMPS_lambda1_in_To_c8_i64_std_ratio_1_1_op_call__pkc8_pkc8_k) \
  __CPROVER_loop_invariant(__verif_exc == 0 && __CPROVER_same_object(pos, end) && PO(pos) < PO(end) && PO(pos) > PO(g_txt) && (mint)duration.__r == g_sum && g_contract_ok && isNegative == g_neg) \
  __CPROVER_decreases(PO(end) - PO(pos))
#include "gen.c"
void h_parse_duration(void) { size_t n = nondet_size_t(); __CPROVER_assume(n <= ((size_t)1 << 40)); char* data = malloc(n == 0 ? 1 : n); __CPROVER_assume(data != 0);
  vsv_c8 in; in.data = data; in.size = n; g_txt = data; g_n = n; g_sum = 0; g_contract_ok = 1; g_parts = 0; g_have_val = 0; __verif_exc = 0; __verif_exc_code = 0;
  g_neg = n >= 1 && data[0] == '-';
  struct chr_duration_i64_std_ratio_1_1 out; out.__r = nondet_long(); long out0 = out.__r;
  verif_inst_parse_dur_s__vsv_c8_rchr_duration_i64_std_ratio_1_1(in, &out);
  VERIF_ASSERT("C15,C20", __verif_exc == 0 || ((__verif_exc == EXC_std_invalid_argument || __verif_exc == EXC_std_out_of_range) && out.__r == out0), "a rejected duration raises std::invalid_argument or std::out_of_range and leaves the target untouched");
  VERIF_ASSERT("C15", g_contract_ok, "every part is converted through the overflow-checked guard with its own value, the sign of the duration and the unit of its designator (W, D, H, M, S)");
  VERIF_ASSERT("C15", __verif_exc != 0 || (mint)out.__r == g_sum, "the result is the exact sum of the parts' contributions (plus the rounded fraction): never a wrapped or truncated value");
  VERIF_ASSERT("C15", __verif_exc != 0 || (n >= 3 && data[(data[0] == '-' || data[0] == '+') ? 1 : 0] == 'P'), "an accepted duration starts with an optional sign and 'P'");
  VERIF_CANARY(); }
/*@jobs
job entry=h_parse_duration props=C15,C20,C02 mode=direct loops=1 unwind=4 noflags=--pointer-overflow-check timeout=1500
@*/
