// extraction TU: CEncodedStreamReader<char, 256> (convert_utf.h) - the chunked decoder of encoded text streams used by the CSV stream reader.
// The per-encoding decoders (Utf16Le/Utf16Be/Utf32Le/Utf32Be::Decode) and DetectEncoding are contract-only callees here (they are proved in
// the targets utf_transcode and detect_encoding).
#include "bitserializer/conversion_detail/convert_utf.h"
#include <string>
namespace verif_inst {
using namespace BitSerializer::Convert::Utf;
using Reader = CEncodedStreamReader<char, 256>;
void esr_ctor(void* storage, std::istream& is, UtfEncodingErrorPolicy policy, const char* mark) { new (storage) Reader(is, policy, mark); }
int esr_read_chunk(Reader& r, std::string& out) { return static_cast<int>(r.ReadChunk(out)); }
bool esr_is_end(const Reader& r) { return r.IsEnd(); }
}
