/* CEncodedStreamReader<char, 256>::ReadChunk / ReadNextEncodedChunk / DecodeChunk<Utf16Le|Utf16Be|Utf32Le|Utf32Be> / IsEnd (convert_utf.h),
   proved from an ARBITRARY well-formed state (any buffer fill, any cursor, any stream length / flag state, any detected encoding, both
   error policies) against the decoder CONTRACTS (the decoders themselves are proved in utf_transcode):
   - C13 lossless + chunk independent: every stream byte is handed to the decoder (or copied, for UTF-8) exactly once and in stream order,
     on whole code units only; nothing is dropped except an incomplete tail at the end of the stream, which is marked or reported;
   - C02/C13 no hang: a call that reports Success has strictly reduced the number of undecoded bytes (stream + buffer);
   - C02: the buffer squeeze copies non-overlapping ranges or uses memmove; pointers stay inside the 256-byte buffer.
   Buffer contents are followed with the same ghost mapping as in bin_stream_reader (cell k holds stream byte g_lo + k for g_vlo <= k < g_vhi). */
#include "models/prelude.h"
#define CHUNK 256
static size_t g_lo, g_vlo, g_vhi; static _Bool g_content_broken;
static size_t g_next_off;        /* ghost: stream offset of the next byte that has to be handed out (bytes are handed out in order, once) */
static unsigned g_handouts; static size_t g_handed; static _Bool g_dropped_tail; static size_t g_marks;
static void ghost_on_read(const void* dest, size_t first_offset, size_t count);
#define VERIF_ON_STREAM_READ(s, dest, first_offset, count) ghost_on_read(dest, first_offset, count)
#include "models/istream.h"
/* std::string out-parameter (append-only): appended blocks are hand-outs of buffer cells; append(mark) is the error mark */
typedef struct { size_t len; const char* mark_ptr; } vstr_c8;
#include "gen.h"
static struct CEncodedStreamReader_c8_256 g_rd;
#define g_r (&g_rd)
static void ghost_on_read(const void* dest, size_t first_offset, size_t count) {
  if (count == 0) return;
  if (!__CPROVER_same_object(dest, g_r->mEncodedBuffer)) { g_content_broken = 1; return; }
  size_t cell = (size_t)((const char*)dest - g_r->mEncodedBuffer);
  if (g_vlo < g_vhi && cell >= g_vlo && cell <= g_vhi && g_lo + cell == first_offset) { g_vhi = cell + count; return; }
  g_lo = first_offset - cell; g_vlo = cell; g_vhi = cell + count;
}
static void* verif_copy(void* dst, const void* src, size_t n, _Bool must_not_overlap) {
  const char* s = (const char*)src; char* d = (char*)dst;
  __CPROVER_assert(n == 0 || (__CPROVER_r_ok(s, n) && __CPROVER_w_ok(d, n)), "MODEL: memcpy/memmove source readable and destination writable for n bytes");
  if (must_not_overlap) __CPROVER_assert(n == 0 || !__CPROVER_same_object(d, s) || d + n <= s || s + n <= d, "MODEL: memcpy source and destination do not overlap (undefined behaviour otherwise)");
  if (n == 0) return dst;
  if (!__CPROVER_same_object(d, g_r->mEncodedBuffer) || !__CPROVER_same_object(s, g_r->mEncodedBuffer)) { g_content_broken = 1; return dst; }
  size_t dc = (size_t)(d - g_r->mEncodedBuffer), sc = (size_t)(s - g_r->mEncodedBuffer);
  /* cells that were valid and are moved keep their stream bytes at the new place; everything else in the destination range becomes unknown */
  { size_t a = sc > g_vlo ? sc : g_vlo, b = sc + n < g_vhi ? sc + n : g_vhi; if (sc >= dc && a < b) { g_lo = g_lo + sc - dc; g_vlo = a - (sc - dc); g_vhi = b - (sc - dc); } else if (sc >= dc) { g_vlo = g_vhi = 0; } else g_content_broken = 1; }
  return dst;
}
#define VERIF_MEMCPY(d, s, n) verif_copy(d, s, n, 1)
#define VERIF_MEMMOVE(d, s, n) verif_copy(d, s, n, 0)
/* hand-out of the cells [first, last) to a decoder / to the output: they must be valid, mapped, and be exactly the next bytes of the stream */
static void hand_out(const char* first, size_t nbytes) {
  g_handouts++;
  if (nbytes == 0) return;
  if (!__CPROVER_same_object(first, g_r->mEncodedBuffer)) { g_content_broken = 1; return; }
  size_t cell = (size_t)(first - g_r->mEncodedBuffer);
  __CPROVER_assert(cell >= g_vlo && cell + nbytes <= g_vhi && g_lo + cell == g_next_off, "C13: the bytes handed to the decoder are valid buffer cells holding exactly the next undecoded bytes of the stream (nothing skipped, nothing repeated)");
  g_next_off += nbytes; g_handed += nbytes;
}
static inline vstr_c8* vstr_c8_append_pc8_v__pc8_pc8(vstr_c8* s, char* first, char* last) { __CPROVER_assert(__CPROVER_same_object(first, last) && first <= last, "MODEL: append(first,last) is given a valid range"); hand_out(first, (size_t)(last - first)); s->len += (size_t)(last - first); return s; }
static inline vstr_c8* vstr_c8_append__pkc8(vstr_c8* s, const char* p) { __CPROVER_assert(p == s->mark_ptr && p != 0, "MODEL: the only C string appended is the error mark"); g_marks++; return s; }
/* decoder contract (Utf16Le/Utf16Be/Utf32Le/Utf32Be::Decode to UTF-8), consequence of the step contracts proved in utf_transcode:
   consumes a prefix of whole code units; Success <=> everything consumed; UnexpectedEnd only for a high surrogate as the very last unit
   (UTF-16); InvalidSequence only under ThrowError; with two or more units available at least one unit is consumed unless InvalidSequence. */
#define DECODER(NAME, RES, UNIT, UNIT_T, IS16) \
struct RES NAME(UNIT_T* in, UNIT_T* const* endp, vstr_c8* out, int policy, const char* mark) { \
  UNIT_T* end = *endp; struct RES r; \
  __CPROVER_assert(__CPROVER_same_object(in, end) && in <= end && ((const char*)end - (const char*)in) % UNIT == 0, "C13,C02: the decoder is called on a valid range of whole code units"); \
  __CPROVER_assert((const char*)in == g_r->mStartDataPtr && (const char*)end <= g_r->mEndDataPtr && g_r->mEndDataPtr - (const char*)end < UNIT, "C13: the decoder receives everything buffered except an incomplete trailing code unit"); \
  size_t units = (size_t)(end - in); size_t k = nondet_size_t(); __CPROVER_assume(k <= units); \
  int code = nondet_int(); __CPROVER_assume(code == UtfEncodingErrorCode_Success || code == UtfEncodingErrorCode_UnexpectedEnd || code == UtfEncodingErrorCode_InvalidSequence); \
  __CPROVER_assume((code == UtfEncodingErrorCode_Success) == (k == units) || code == UtfEncodingErrorCode_InvalidSequence); \
  __CPROVER_assume(code != UtfEncodingErrorCode_UnexpectedEnd || ((IS16) && units >= 1 && k == units - 1)); \
  __CPROVER_assume(code != UtfEncodingErrorCode_InvalidSequence || (policy == UtfEncodingErrorPolicy_ThrowError && k < units)); \
  hand_out((const char*)in, k * UNIT); out->len += nondet_size_t() % 1024; \
  r.ErrorCode = code; r.Iterator = in + k; r.InvalidSequencesCount = nondet_size_t(); return r; }
DECODER(Utf16Le_Decode_pc16_c8_valloc_c8__pc16_rkpc16_rvstr_c8_UtfEncodingErrorPolicy_pkc8, UtfEncodingResult_pc16, 2, uint16_t, 1)
DECODER(Utf16Be_Decode_pc16_c8_valloc_c8__pc16_rkpc16_rvstr_c8_UtfEncodingErrorPolicy_pkc8, UtfEncodingResult_pc16, 2, uint16_t, 1)
DECODER(Utf32Le_Decode_pc32_c8_valloc_c8__pc32_rkpc32_rvstr_c8_UtfEncodingErrorPolicy_pkc8, UtfEncodingResult_pc32, 4, uint32_t, 0)
DECODER(Utf32Be_Decode_pc32_c8_valloc_c8__pc32_rkpc32_rvstr_c8_UtfEncodingErrorPolicy_pkc8, UtfEncodingResult_pc32, 4, uint32_t, 0)
#include "gen.c"

static vistream S; static char g_mark[4];
static _Bool esr_wf(void) {
  const struct CEncodedStreamReader_c8_256* r = g_r;
  if (!__CPROVER_same_object(r->mStartDataPtr, r->mEncodedBuffer) || !__CPROVER_same_object(r->mEndDataPtr, r->mEncodedBuffer)) return 0;
  size_t so = (size_t)(r->mStartDataPtr - r->mEncodedBuffer), eo = (size_t)(r->mEndDataPtr - r->mEncodedBuffer);
  if (!(so <= eo && eo <= CHUNK) || r->mEndBufferPtr != r->mEncodedBuffer + CHUNK || r->mInputStream != &S) return 0;
  if (S.pos > S.size || eo - so > S.pos) return 0;
  const vios* f = &S.__base_basic_ios;
  if (f->badbit || ((f->eofbit || f->failbit) && S.pos != S.size) || (f->failbit && !f->eofbit)) return 0;
  if (g_content_broken) return 0;
  if (g_next_off != S.pos - (eo - so)) return 0;                                   /* everything fetched is either handed out or still buffered */
  if (eo > so && !(g_vlo <= so && g_vhi >= eo && g_vhi <= CHUNK && g_lo + so == g_next_off)) return 0;   /* buffered cells hold the next bytes of the stream */
  if (r->mUtfType < UtfType_Utf8 || r->mUtfType > UtfType_Utf32be) return 0;
  return 1;
}
static size_t so0, eo0, mu0;
static void esr_init(void) {
  struct CEncodedStreamReader_c8_256* r = g_r;
  S.size = nondet_size_t(); __CPROVER_assume(S.size <= ((size_t)1 << 50)); S.pos = nondet_size_t(); S.gcount_ = 0; S.reads = 0; S.seeks = 0;
  S.__base_basic_ios.eofbit = nondet_bool(); S.__base_basic_ios.failbit = nondet_bool(); S.__base_basic_ios.badbit = 0;
  so0 = nondet_size_t(); eo0 = nondet_size_t(); __CPROVER_assume(so0 <= eo0 && eo0 <= CHUNK);
  r->mInputStream = &S; r->mEndBufferPtr = r->mEncodedBuffer + CHUNK; r->mStartDataPtr = r->mEncodedBuffer + so0; r->mEndDataPtr = r->mEncodedBuffer + eo0;
  r->mUtfType = nondet_int(); r->mEncodingErrorPolicy = nondet_bool() ? UtfEncodingErrorPolicy_ThrowError : UtfEncodingErrorPolicy_Skip; r->mErrorMark = nondet_bool() ? g_mark : (const char*)0;
  g_content_broken = 0; g_lo = nondet_size_t(); g_vlo = nondet_size_t(); g_vhi = nondet_size_t(); g_next_off = nondet_size_t(); g_handouts = 0; g_handed = 0; g_marks = 0;
  __CPROVER_assume(esr_wf());   /* class invariant */
  mu0 = S.size - g_next_off;      /* undecoded bytes: still in the stream or in the buffer */
  __verif_exc = 0;
}
void h_read_chunk(void) { esr_init(); vstr_c8 out; out.len = 0; out.mark_ptr = g_r->mErrorMark; _Bool was_end = so0 == eo0 && S.__base_basic_ios.eofbit;
  int ret = verif_inst_esr_read_chunk__rCEncodedStreamReader_c8_256_rvstr_c8(g_r, &out);
  size_t so = (size_t)(g_r->mStartDataPtr - g_r->mEncodedBuffer), eo = (size_t)(g_r->mEndDataPtr - g_r->mEncodedBuffer);
  size_t consumed_to = S.pos - (eo - so);            /* bytes no longer pending: handed out, or dropped as an incomplete tail */
  VERIF_ASSERT("C13,C02", __verif_exc == 0 && (ret == EncodedStreamReadResult_Success || ret == EncodedStreamReadResult_DecodeError || ret == EncodedStreamReadResult_EndFile), "ReadChunk never raises and returns one of its three result codes");
  VERIF_ASSERT("C13,C02", __CPROVER_same_object(g_r->mStartDataPtr, g_r->mEncodedBuffer) && __CPROVER_same_object(g_r->mEndDataPtr, g_r->mEncodedBuffer) && so <= eo && eo <= CHUNK && !g_content_broken, "cursor and end stay inside the buffer, in order");
  VERIF_ASSERT("C13", consumed_to >= g_next_off && (consumed_to == g_next_off || (S.__base_basic_ios.eofbit && consumed_to - g_next_off < 4)), "nothing fetched from the stream is lost: it is handed to the decoder or still buffered; only an incomplete trailing character at the end of the stream may be dropped");
  VERIF_ASSERT("C13", consumed_to == g_next_off || (ret == EncodedStreamReadResult_Success ? (g_r->mEncodingErrorPolicy == UtfEncodingErrorPolicy_Skip && g_marks == (g_r->mErrorMark ? 1u : 0u)) : ret == EncodedStreamReadResult_DecodeError), "[KF-C13-cropped-code-unit] a stream cut in the middle of a character is handled per the error policy: one error mark (Skip) or DecodeError (ThrowError)");
  VERIF_ASSERT("C13,C02", ret != EncodedStreamReadResult_Success || S.size - consumed_to < mu0, "[KF-C13-cropped-code-unit] a call that reports Success has made progress: strictly fewer undecoded bytes remain (callers loop on Success, so this is termination)");
  VERIF_ASSERT("C13", ret != EncodedStreamReadResult_EndFile || (consumed_to == S.size && S.__base_basic_ios.eofbit && g_handouts == 0), "EndFile is reported only when every byte of the stream has been consumed");
  VERIF_ASSERT("C13", ret != EncodedStreamReadResult_DecodeError || g_r->mEncodingErrorPolicy == UtfEncodingErrorPolicy_ThrowError, "DecodeError can only occur with the ThrowError policy");
  VERIF_ASSERT("C13", !was_end || ret == EncodedStreamReadResult_EndFile, "at the end of the stream ReadChunk keeps answering EndFile");
  VERIF_CANARY(); }
void h_is_end(void) { esr_init();
  VERIF_ASSERT("C13", verif_inst_esr_is_end__rkCEncodedStreamReader_c8_256(g_r) == (so0 == eo0 && S.__base_basic_ios.eofbit), "IsEnd is 'nothing buffered and the stream reported its end'"); VERIF_CANARY(); }
/*@jobs
job entry=h_read_chunk props=C13,C02,C10 mode=direct unwind=3 kf=KF-C13-cropped-code-unit
job entry=h_is_end props=C13 mode=direct unwind=3
@*/
