/* CCsvStreamReader::ParseNextLine / IsEnd (src/csv/csv_readers.cpp:330-420, csv_readers.h:58) against the contract of CEncodedStreamReader
   (proved in encoded_stream_reader): ReadChunk either appends the decoding of at least one more byte of the stream, or reports EndFile when no
   byte is left - and only then is IsEnd() true; a stream whose length is an exact multiple of the chunk size reaches "no byte left" BEFORE the
   reader knows it (ghost g_bytes == 0 with g_eof_seen == 0).  The decoded text itself is arbitrary (every character read is nondeterministic),
   so the proof covers every document, every line length and every position of the chunk boundaries (loop contracts on both scanning loops).
   C10: class invariant of the CSV stream reader  INV: pos <= size  /\  (pos == size /\ no byte left  =>  the end of the stream is known),
   which makes IsEnd() EXACT: IsEnd() <=> the document has no further character - the same answer the in-memory reader gives.  Every line
   re-establishes INV; every value lies inside the buffer; the scan always terminates (decreases: 4*bytes left + characters not yet scanned). */
#include "models/prelude.h"
#include <stdlib.h>
typedef struct { int _opaque; } vistream;
typedef struct { size_t size; size_t base; } vstr_c8;            /* the decoded buffer holds characters [base, base+size) of the decoded text */
typedef struct { size_t n; size_t last_off, last_size; _Bool inside; } vvec_CValueMeta;
typedef struct { int _opaque; } vvec_vstr_c8;
static char g_cell;
static inline size_t vstr_c8_size___k(const vstr_c8* s) { return s->size; }
static inline char* vstr_c8_op_index__u64(vstr_c8* s, unsigned long i) { __CPROVER_assert(i < s->size, "MODEL: std::string::operator[] index < size() (reading the terminator is allowed by the standard, writing is not; the scanner must not rely on it)"); g_cell = nondet_char(); return &g_cell; }
static inline vstr_c8* vstr_c8_erase__u64_u64(vstr_c8* s, unsigned long pos, unsigned long n) { __CPROVER_assert(pos <= s->size, "MODEL: std::string::erase pos <= size() (out_of_range otherwise)"); size_t k = n < s->size - pos ? n : s->size - pos; if (pos == 0) s->base += k; s->size -= k; return s; }
static vstr_c8* g_buf;
static inline void vvec_CValueMeta_clear(vvec_CValueMeta* v) { v->n = 0; v->inside = 1; }
static inline size_t vvec_CValueMeta_size___k(const vvec_CValueMeta* v) { return v->n; }
static inline _Bool vvec_CValueMeta_empty___k(const vvec_CValueMeta* v) { return v->n == 0; }
#include "gen.h"
/* ---- contract of CEncodedStreamReader<char,256> ---- */
static size_t g_bytes; static _Bool g_eof_seen; static unsigned long g_chunks;
int CEncodedStreamReader_c8_256_ReadChunk_valloc_c8__rvstr_c8(struct CEncodedStreamReader_c8_256* r, vstr_c8* out) {
  g_chunks++;
  if (g_bytes == 0) { g_eof_seen = 1; return 2; }                                    /* EndFile: nothing appended */
  if (nondet_bool()) return 1;                                                      /* DecodeError (policy ThrowError) */
  size_t c = nondet_size_t(), k = nondet_size_t(); __CPROVER_assume(c >= 1 && c <= g_bytes && c <= 256 && k >= 1 && k <= 3 * c);   /* consumes c >= 1 bytes, appends 1 <= k <= 3c characters */
  g_bytes -= c; out->size += k; if (g_bytes == 0) g_eof_seen = nondet_bool(); return 0; }
_Bool CEncodedStreamReader_c8_256_IsEnd___k(const struct CEncodedStreamReader_c8_256* r) { return g_eof_seen; }
static inline struct CValueMeta* vvec_CValueMeta_emplace_back_rku64_u64_b__rku64_xu64_xb(vvec_CValueMeta* v, const unsigned long* off, unsigned long* size, _Bool* esc) {
  v->n++; v->last_off = *off; v->last_size = *size; if (!(*off <= g_buf->size && *size <= g_buf->size - *off)) v->inside = 0; static long cell[4]; return (struct CValueMeta*)cell; }
#define INV(s) ((s)->mCurrentPos <= (s)->mDecodedBuffer.size && (!g_eof_seen || g_bytes == 0) && (!((s)->mCurrentPos == (s)->mDecodedBuffer.size && g_bytes == 0) || g_eof_seen))
/* sizes stay representable: one consumed byte yields at most 3 characters, so 3*bytes left + buffer size never grows */
#define CAP(s) (g_bytes <= ((size_t)1 << 52) && (s)->mDecodedBuffer.size <= ((size_t)1 << 54) && 3 * g_bytes + (s)->mDecodedBuffer.size <= ((size_t)1 << 54))
#define MEASURE(s) (4 * g_bytes + ((s)->mDecodedBuffer.size - (s)->mCurrentPos))
#define VERIF_LOOP_CCsvStreamReader_ParseNextLine__rvvec_CValueMeta_1 \
  __CPROVER_assigns(isEndLine, self->mCurrentPos, self->mDecodedBuffer.size, g_bytes, g_eof_seen, g_chunks, g_cell, out_values->n, out_values->last_off, out_values->last_size, out_values->inside, __verif_exc, __verif_exc_code VERIF_TMPS_CCsvStreamReader_ParseNextLine__rvvec_CValueMeta) \
  __CPROVER_loop_invariant(__verif_exc == 0 && self->mCurrentPos <= self->mDecodedBuffer.size && (!g_eof_seen || g_bytes == 0) && CAP(self) && out_values->inside && g_buf == &self->mDecodedBuffer && (!isEndLine || out_values->n >= 1) && out_values->n <= self->mCurrentPos + (isEndLine ? 1u : 0u))
#define VERIF_LOOP_CCsvStreamReader_ParseNextLine__rvvec_CValueMeta_2 \
  __CPROVER_assigns(isEndLine, endValuePos, doubleQuotesCount, precedingCrPos, self->mCurrentPos, self->mDecodedBuffer.size, g_bytes, g_eof_seen, g_chunks, g_cell, __verif_exc, __verif_exc_code) \
  __CPROVER_loop_invariant(__verif_exc == 0 && startValuePos <= self->mCurrentPos && self->mCurrentPos <= self->mDecodedBuffer.size && (!g_eof_seen || g_bytes == 0) && CAP(self) && !isEndLine && (precedingCrPos == 18446744073709551615UL || (startValuePos <= precedingCrPos && precedingCrPos < self->mCurrentPos))) \
  __CPROVER_decreases(MEASURE(self))
/* state behind the inner loop: the value just delimited lies inside the buffer */
#define VERIF_AFTER_LOOP_CCsvStreamReader_ParseNextLine__rvvec_CValueMeta_2 __CPROVER_assert(startValuePos <= endValuePos && endValuePos <= self->mDecodedBuffer.size && endValuePos <= self->mCurrentPos, "C09,C10: a value is delimited inside the decoded buffer, in front of the scan position");
#include "gen.c"
void h_parse_next_line(void) { struct CCsvStreamReader s; vvec_CValueMeta vals; vals.n = nondet_size_t(); vals.inside = 1; g_buf = &s.mDecodedBuffer;
  s.mDecodedBuffer.size = nondet_size_t(); s.mDecodedBuffer.base = nondet_size_t(); s.mCurrentPos = nondet_size_t(); s.mSeparator = nondet_char(); s.mLineNumber = nondet_ulong(); s.mPrevValuesCount = nondet_ulong();
  g_bytes = nondet_size_t(); g_eof_seen = nondet_bool(); g_chunks = 0; __verif_exc = 0; __verif_exc_code = 0;
  __CPROVER_assume(g_bytes <= ((size_t)1 << 50) && s.mDecodedBuffer.size <= ((size_t)1 << 50) && s.mDecodedBuffer.base <= ((size_t)1 << 50) && s.mLineNumber < (1ul << 62));
  __CPROVER_assume(INV(&s));                                                                   /* class invariant */
  _Bool at_end = s.mCurrentPos == s.mDecodedBuffer.size && g_bytes == 0; size_t logical0 = s.mDecodedBuffer.base + s.mCurrentPos;
  VERIF_ASSERT("C10", CCsvStreamReader_IsEnd___k(&s) == at_end, "IsEnd() is exact: true iff the document has no further character (as for the in-memory reader), wherever the chunk boundary lies");
  _Bool ret = CCsvStreamReader_ParseNextLine__rvvec_CValueMeta(&s, &vals);
  VERIF_ASSERT("C10,C20", __verif_exc == 0 || (__verif_exc == EXC_SerializationException && __verif_exc_code == SerializationErrorCode_UtfEncodingError), "the only failure of the line scanner is the decoder's UtfEncodingError");
  VERIF_ASSERT("C10,C09", __verif_exc != 0 || INV(&s), "every line re-establishes the class invariant: when the buffer is used up and no byte is left, the end of the stream is known - so IsEnd() stays exact for an input of ANY length (also an exact multiple of the chunk size)");
  VERIF_ASSERT("C10,C09", __verif_exc != 0 || (at_end ? (!ret && g_chunks == 0) : (ret && vals.n >= 1 && vals.inside)), "at the end of the document nothing is parsed; otherwise the line yields at least one value and every value lies inside the decoded buffer");
  VERIF_ASSERT("C10", __verif_exc != 0 || at_end || s.mDecodedBuffer.base + s.mCurrentPos >= logical0, "the scan position only moves forward in the decoded text");
  VERIF_CANARY(); }
/*@jobs
job entry=h_parse_next_line props=C10,C09,C20,C02 mode=direct loops=1 unwind=3
@*/
