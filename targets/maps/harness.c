/* Detail::SerializeMapImpl<LoadScope, std::map<int,int>> (generic_map.h:38-113), the three MapLoadMode values, for every document (any number
   of keys: induction over the key enumeration, see VisitKeys in tu.cpp) and every prior content of the target map.
   std::map is modelled for ONE ARBITRARY witness key w (present or not, its slot) plus "some other key"; all other keys behave
   nondeterministically, so what is proved for w holds for every key:
   - Clean: after the load w is in the map iff the document carried it (no stale key survives: the map is cleared before anything is inserted);
   - OnlyExistKeys: w is in the map afterwards iff it was before (never adds a key, never removes one);
   - UpdateKeys: w is in the map afterwards iff it was before or the document carried it (never removes a key);
   - in every mode a value is loaded only into the slot of the key it belongs to, each document key is offered to the archive once. */
#include "models/prelude.h"
typedef struct { int _opaque; } std_variant_vstr_c8_vstr_wc_vstr_c16_vstr_c32;
typedef struct { int _opaque; } std_map_vstr_c8_vvec_vstr_c8_std_less_vstr_c8;
typedef struct { int first; int second; } std_pair_ki32_i32;
enum { IT_END = 0, IT_W = 1, IT_OTHER = 2 };
typedef struct { int at; } std_Rb_tree_iterator_std_pair_ki32_i32;
typedef std_Rb_tree_iterator_std_pair_ki32_i32 std_Rb_tree_const_iterator_std_pair_ki32_i32;
typedef struct { _Bool has_w; unsigned clears; unsigned inserts_after_clear; } std_map_i32_i32_std_less_i32;
static int g_w; static std_pair_ki32_i32 g_slot_w, g_slot_other; static _Bool g_other_present;
#define MAP std_map_i32_i32_std_less_i32
#define IT std_Rb_tree_iterator_std_pair_ki32_i32
static inline IT mk_it(int at) { IT i; i.at = at; return i; }
static inline void std_map_i32_i32_std_less_i32_clear(MAP* m) { m->has_w = 0; m->clears++; m->inserts_after_clear = 0; g_other_present = 0; }
static inline IT std_map_i32_i32_std_less_i32_begin(MAP* m) { return mk_it(nondet_bool() ? IT_END : (nondet_bool() ? IT_W : IT_OTHER)); }   /* only used as an insertion hint */
static inline IT std_map_i32_i32_std_less_i32_end(MAP* m) { return mk_it(IT_END); }
static inline IT std_map_i32_i32_std_less_i32_find__rki32(MAP* m, const int* k) { if (*k == g_w) return mk_it(m->has_w ? IT_W : IT_END); return mk_it(nondet_bool() ? IT_OTHER : IT_END); }
static inline std_pair_ki32_i32* slot_of(MAP* m, int k) { m->inserts_after_clear++; if (k == g_w) { if (!m->has_w) { m->has_w = 1; g_slot_w.first = k; } return &g_slot_w; } g_slot_other.first = k; return &g_slot_other; }
static inline IT std_map_i32_i32_std_less_i32_try_emplace__std_Rb_tree_const_iterator_std_pair_ki32_i32_xi32(MAP* m, IT hint, int* k) { (void)hint; std_pair_ki32_i32* s = slot_of(m, *k); return mk_it(s == &g_slot_w ? IT_W : IT_OTHER); }
static inline int* std_map_i32_i32_std_less_i32_op_index__rki32(MAP* m, const int* k) { return &slot_of(m, *k)->second; }
static inline IT std_map_i32_i32_std_less_i32_erase__std_Rb_tree_iterator_std_pair_ki32_i32(MAP* m, IT it) { if (it.at == IT_W) m->has_w = 0; return mk_it(IT_END); }
static inline IT std_map_i32_i32_std_less_i32_erase__std_Rb_tree_const_iterator_std_pair_ki32_i32(MAP* m, IT it) { if (it.at == IT_W) m->has_w = 0; return mk_it(IT_END); }
static inline unsigned long std_map_i32_i32_std_less_i32_erase__rki32(MAP* m, const int* k) { if (*k == g_w) { _Bool h = m->has_w; m->has_w = 0; return h; } return nondet_bool(); }
static inline IT std_Rb_tree_const_iterator_std_pair_ki32_i32_ctor__rkstd_Rb_tree_iterator_std_pair_ki32_i32(const IT* i) { return *i; }
static inline IT* std_Rb_tree_iterator_std_pair_ki32_i32_op_assign__xstd_Rb_tree_iterator_std_pair_ki32_i32(IT* a, IT* b) { *a = *b; return a; }
static inline _Bool m_std_operator_op_ne__rkstd_Rb_tree_iterator_std_pair_ki32_i32_rkstd_Rb_tree_iterator_std_pair_ki32_i32(const IT* a, const IT* b) { return a->at != b->at; }
static inline _Bool m_std_operator_op_eq__rkstd_Rb_tree_iterator_std_pair_ki32_i32_rkstd_Rb_tree_iterator_std_pair_ki32_i32(const IT* a, const IT* b) { return a->at == b->at; }
static inline std_pair_ki32_i32* std_Rb_tree_iterator_std_pair_ki32_i32_op_arrow___k(const IT* i) { __CPROVER_assert(i->at != IT_END, "MODEL: a map iterator is dereferenced only when it is not end()"); return i->at == IT_W ? &g_slot_w : &g_slot_other; }
/* std::multimap<int,int>: number of pairs + multiplicity of one arbitrary witness pair (g_mw_k, g_mw_v) */
typedef struct { int first; int second; } std_pair_ki32_i32;
typedef struct { unsigned long count, count_w; unsigned clears; } std_multimap_i32_i32_std_less_i32;
typedef struct { int at; } std_Rb_tree_iterator_std_pair_ki32_i32;
typedef struct { int at; } std_Rb_tree_const_iterator_std_pair_ki32_i32;
static int g_mw_k, g_mw_v; static unsigned long g_mm_left, g_mm_loaded, g_mm_seen_w;
static inline std_pair_ki32_i32 std_pair_ki32_i32_ctor_ki32_i32(void) { std_pair_ki32_i32 p; p.first = 0; p.second = 0; return p; }
static inline void std_multimap_i32_i32_std_less_i32_clear(std_multimap_i32_i32_std_less_i32* m) { m->count = 0; m->count_w = 0; m->clears++; }
static inline std_Rb_tree_iterator_std_pair_ki32_i32 std_multimap_i32_i32_std_less_i32_begin(std_multimap_i32_i32_std_less_i32* m) { std_Rb_tree_iterator_std_pair_ki32_i32 i; i.at = 0; return i; }
static inline std_Rb_tree_const_iterator_std_pair_ki32_i32 std_Rb_tree_const_iterator_std_pair_ki32_i32_ctor__rkstd_Rb_tree_iterator_std_pair_ki32_i32(const std_Rb_tree_iterator_std_pair_ki32_i32* i) { std_Rb_tree_const_iterator_std_pair_ki32_i32 c; c.at = i->at; return c; }
static inline std_Rb_tree_iterator_std_pair_ki32_i32* std_Rb_tree_iterator_std_pair_ki32_i32_op_assign__xstd_Rb_tree_iterator_std_pair_ki32_i32(std_Rb_tree_iterator_std_pair_ki32_i32* a, std_Rb_tree_iterator_std_pair_ki32_i32* b) { *a = *b; return a; }
static inline std_Rb_tree_iterator_std_pair_ki32_i32 std_multimap_i32_i32_std_less_i32_emplace_hint_std_pair_ki32_i32__std_Rb_tree_const_iterator_std_pair_ki32_i32_xstd_pair_ki32_i32(std_multimap_i32_i32_std_less_i32* m, std_Rb_tree_const_iterator_std_pair_ki32_i32 hint, std_pair_ki32_i32* p) {
  (void)hint; m->count++; if (p->first == g_mw_k && p->second == g_mw_v) m->count_w++; std_Rb_tree_iterator_std_pair_ki32_i32 i; i.at = 1; return i; }
/* std::set<int> for one arbitrary witness value */
typedef struct { _Bool has_w; unsigned clears; } std_set_i32_std_less_i32_valloc_i32;
typedef struct { int at; } std_Rb_tree_const_iterator_i32;
static int g_sw; static _Bool g_s_seen_w; static unsigned long g_s_items, g_s_inserts;
static inline void std_set_i32_std_less_i32_valloc_i32_clear(std_set_i32_std_less_i32_valloc_i32* m) { m->has_w = 0; m->clears++; }
static inline std_Rb_tree_const_iterator_i32 std_set_i32_std_less_i32_valloc_i32_begin___k(const std_set_i32_std_less_i32_valloc_i32* m) { std_Rb_tree_const_iterator_i32 i; i.at = 0; return i; }
static inline std_Rb_tree_const_iterator_i32 std_set_i32_std_less_i32_valloc_i32_insert__std_Rb_tree_const_iterator_i32_xi32(std_set_i32_std_less_i32_valloc_i32* m, std_Rb_tree_const_iterator_i32 hint, int* v) { (void)hint; g_s_inserts++; if (*v == g_sw) m->has_w = 1; std_Rb_tree_const_iterator_i32 i; i.at = 1; return i; }
static inline std_Rb_tree_const_iterator_i32* std_Rb_tree_const_iterator_i32_op_assign__xstd_Rb_tree_const_iterator_i32(std_Rb_tree_const_iterator_i32* a, std_Rb_tree_const_iterator_i32* b) { *a = *b; return a; }
#include "gen.h"
/* ---- abstract document: a sequence of keys; NextKey says whether another one follows ---- */
static int g_cur_key; static _Bool g_seen_w, g_have_cur; static unsigned long g_offered, g_keys; static _Bool g_slot_ok;
unsigned long AbsLoadMapScope_GetEstimatedSize___k(const struct AbsLoadMapScope* s) { return nondet_ulong(); }
_Bool AbsLoadMapScope_NextKey(struct AbsLoadMapScope* s) { if (nondet_bool()) { g_have_cur = 0; return 0; } g_cur_key = nondet_int(); g_have_cur = 1; g_keys++; if (g_cur_key == g_w) g_seen_w = 1; return 1; }
const int* AbsLoadMapScope_CurrentKey___k(const struct AbsLoadMapScope* s) { __CPROVER_assert(g_have_cur, "MODEL: CurrentKey after a successful NextKey"); return &g_cur_key; }
_Bool AbsLoadMapScope_SerializeValue__rki32_ri32(struct AbsLoadMapScope* s, const int* key, int* value) {
  g_offered++; if (*key != g_cur_key || value != (*key == g_w ? &g_slot_w.second : &g_slot_other.second)) g_slot_ok = 0;
  if (nondet_bool()) { __verif_exc = EXC_SerializationException; return 0; }
  if (nondet_bool()) { *value = nondet_int(); return 1; } return 0; }
/* abstract array scope for sets: IsEnd is arbitrary (any number of items); an item loads (value delivered), is reported as not loaded (null /
   skipped: the target is NOT written), or the load raises */
_Bool AbsLoadSetScope_IsEnd___k(const struct AbsLoadSetScope* s) { return nondet_bool(); }
_Bool AbsLoadSetScope_SerializeValue__ri32(struct AbsLoadSetScope* s, int* v) { g_s_items++; if (nondet_bool()) { __verif_exc = EXC_SerializationException; return 0; } if (nondet_bool()) return 0; int item = nondet_int(); *v = item; if (item == g_sw) g_s_seen_w = 1; return 1; }
#define VERIF_LOOP_Detail_SerializeSetImpl_AbsLoadSetScope_std_set_i32_std_less_i32_valloc_i32__rAbsLoadSetScope_rstd_set_i32_std_less_i32_valloc_i32_1 \
  __CPROVER_assigns(cont->has_w, hint.at, g_s_seen_w, g_s_items, g_s_inserts, __verif_exc, __verif_exc_code VERIF_TMPS_Detail_SerializeSetImpl_AbsLoadSetScope_std_set_i32_std_less_i32_valloc_i32__rAbsLoadSetScope_rstd_set_i32_std_less_i32_valloc_i32) \
  __CPROVER_loop_invariant(__verif_exc == 0 && cont->has_w == g_s_seen_w && cont->clears == 1)
static int g_mode; static _Bool g_has_w0;
#define EXPECT_HAS(m) (g_mode == MapLoadMode_Clean ? g_seen_w : (g_mode == MapLoadMode_OnlyExistKeys ? g_has_w0 : (g_has_w0 || g_seen_w)))
static MAP* g_map;
#define INV (__verif_exc == 0 && g_map->has_w == EXPECT_HAS(0) && g_slot_ok && g_offered <= g_keys && g_map->clears == (g_mode == MapLoadMode_Clean ? 1u : 0u))
static void havoc_inv(void) { g_map->has_w = nondet_bool(); g_map->inserts_after_clear = nondet_uint(); g_seen_w = nondet_bool(); g_keys = nondet_ulong(); g_offered = nondet_ulong(); g_slot_w.second = nondet_int(); g_slot_other.first = nondet_int(); g_slot_other.second = nondet_int(); g_other_present = nondet_bool(); g_have_cur = 0;
  __CPROVER_assume(g_keys < (1ul << 62)); __CPROVER_assume(INV); }
void AbsLoadMapScope_BeginVisit(struct AbsLoadMapScope* s) { __CPROVER_assert(INV, "C18: the map loader establishes the load invariant before the first key (cleared iff Clean mode, nothing inserted yet)"); havoc_inv(); }
void AbsLoadMapScope_EndStep(struct AbsLoadMapScope* s) { __CPROVER_assert(INV, "C18: loading one more key re-establishes the load invariant (key presence as the mode prescribes, value loaded into its own key's element)"); }
void AbsLoadMapScope_EndVisit(struct AbsLoadMapScope* s) { havoc_inv(); }
/* abstract array-of-objects scope for multimaps: g_mm_left items remain; loading a pair delivers it, reports 'not loaded' or raises */
#define MMF Detail_SerializeMultiMapImpl_AbsLoadPairArrayScope_std_multimap_i32_i32_std_less_i32__rAbsLoadPairArrayScope_rstd_multimap_i32_i32_std_less_i32
_Bool AbsLoadPairArrayScope_IsEnd___k(const struct AbsLoadPairArrayScope* s) { return g_mm_left == 0; }
_Bool Serialize_AbsLoadPairArrayScope_std_pair_ki32_i32_0__rAbsLoadPairArrayScope_rstd_pair_ki32_i32(struct AbsLoadPairArrayScope* s, std_pair_ki32_i32* p) {
  __CPROVER_assert(g_mm_left > 0, "C18: no item is requested from the archive beyond its end"); g_mm_left--;
  if (nondet_bool()) { __verif_exc = EXC_SerializationException; return 0; } if (nondet_bool()) return 0;
  p->first = nondet_int(); p->second = nondet_int(); g_mm_loaded++; if (p->first == g_mw_k && p->second == g_mw_v) g_mm_seen_w++; return 1; }
#define VERIF_LOOP_Detail_SerializeMultiMapImpl_AbsLoadPairArrayScope_std_multimap_i32_i32_std_less_i32__rAbsLoadPairArrayScope_rstd_multimap_i32_i32_std_less_i32_1 \
  __CPROVER_assigns(hint.at, cont->count, cont->count_w, g_mm_left, g_mm_loaded, g_mm_seen_w, __verif_exc, __verif_exc_code VERIF_TMPS_Detail_SerializeMultiMapImpl_AbsLoadPairArrayScope_std_multimap_i32_i32_std_less_i32__rAbsLoadPairArrayScope_rstd_multimap_i32_i32_std_less_i32) \
  __CPROVER_loop_invariant(__verif_exc == 0 && cont->count == g_mm_loaded && cont->count_w == g_mm_seen_w && cont->clears == 1 && g_mm_seen_w <= g_mm_loaded && g_mm_left <= ((unsigned long)1 << 50) && g_mm_loaded <= ((unsigned long)1 << 50) - g_mm_left) \
  __CPROVER_decreases(g_mm_left)
#include "gen.c"
void h_load_map(void) { struct AbsLoadMapScope scope; static struct SerializationContext ctx; static struct SerializationOptions opt; ctx.mSerializationOptions = &opt; scope.__base_TArchiveScope.mSerializationContext = &ctx;
  opt.mismatchedTypesPolicy = nondet_bool() ? MismatchedTypesPolicy_ThrowError : MismatchedTypesPolicy_Skip; opt.overflowNumberPolicy = nondet_bool() ? OverflowNumberPolicy_ThrowError : OverflowNumberPolicy_Skip;
  MAP m; g_map = &m; m.has_w = nondet_bool(); m.clears = 0; m.inserts_after_clear = 0; g_has_w0 = m.has_w; g_w = nondet_int();
  g_mode = nondet_int(); __CPROVER_assume(g_mode == MapLoadMode_Clean || g_mode == MapLoadMode_OnlyExistKeys || g_mode == MapLoadMode_UpdateKeys);
  g_seen_w = 0; g_have_cur = 0; g_offered = 0; g_keys = 0; g_slot_ok = 1; __verif_exc = 0; __verif_exc_code = 0;
  verif_inst_load_map__rAbsLoadMapScope_rstd_map_i32_i32_std_less_i32_MapLoadMode(&scope, &m, g_mode);
  VERIF_ASSERT("C18", __verif_exc != 0 || g_mode != MapLoadMode_Clean || (m.has_w == g_seen_w && m.clears == 1), "Clean mode: an arbitrary key is in the map afterwards iff the document carried it - no stale key survives, nothing loaded is lost");
  VERIF_ASSERT("C18", g_mode != MapLoadMode_OnlyExistKeys || m.has_w == g_has_w0, "only-existing-keys mode never adds a key and never removes one (also when the load fails midway)");
  VERIF_ASSERT("C18", g_mode != MapLoadMode_UpdateKeys || !g_has_w0 || m.has_w, "update-keys mode never removes a key (also when the load fails midway)");
  VERIF_ASSERT("C18", __verif_exc != 0 || g_mode != MapLoadMode_UpdateKeys || m.has_w == (g_has_w0 || g_seen_w), "update-keys mode: a key is in the map afterwards iff it was there before or the document carried it");
  VERIF_ASSERT("C18,C03", g_slot_ok && g_offered <= g_keys, "a value is only ever loaded into the element of the key it was stored under, at most once per document key");
  VERIF_CANARY(); }
void h_load_set(void) { struct AbsLoadSetScope scope; std_set_i32_std_less_i32_valloc_i32 m; m.has_w = nondet_bool(); m.clears = 0; g_sw = nondet_int(); g_s_seen_w = 0; g_s_items = 0; g_s_inserts = 0; __verif_exc = 0; __verif_exc_code = 0;
  verif_inst_load_set__rAbsLoadSetScope_rstd_set_i32_std_less_i32_valloc_i32(&scope, &m);
  VERIF_ASSERT("C18,C05", __verif_exc != 0 || (m.has_w == g_s_seen_w && m.clears == 1), "after loading a set, an arbitrary value is a member iff the document delivered it: no stale member survives, nothing loaded is lost, and an item that was NOT loaded (null / skipped) contributes no element");
  VERIF_CANARY(); }
void h_load_multimap(void) { struct AbsLoadPairArrayScope scope; std_multimap_i32_i32_std_less_i32 m; m.count = nondet_ulong(); m.count_w = nondet_ulong(); m.clears = 0; __CPROVER_assume(m.count_w <= m.count);   /* any prior content */
  g_mw_k = nondet_int(); g_mw_v = nondet_int(); g_mm_left = nondet_ulong(); __CPROVER_assume(g_mm_left <= ((unsigned long)1 << 50)); g_mm_loaded = 0; g_mm_seen_w = 0; __verif_exc = 0; __verif_exc_code = 0;
  verif_inst_load_multimap__rAbsLoadPairArrayScope_rstd_multimap_i32_i32_std_less_i32(&scope, &m);
  VERIF_ASSERT("C18,C05", __verif_exc != 0 || (m.clears == 1 && m.count == g_mm_loaded && m.count_w == g_mm_seen_w && g_mm_left == 0), "after loading a multimap it holds exactly the pairs the document delivered, each as often as it was delivered (arbitrary witness pair): no prior pair survives - also for an EMPTY document array -, nothing loaded is lost, an item that was not loaded contributes nothing");
  VERIF_CANARY(); }
/*@jobs
job entry=h_load_map props=C18,C03,C02 mode=direct unwind=3
job entry=h_load_set props=C18,C05,C02 mode=direct loops=1 unwind=3
job entry=h_load_multimap props=C18,C05,C02 mode=direct loops=1 unwind=3
@*/
