// extraction TU: Detail::SerializeMapImpl (generic_map.h) in LOAD mode over an abstract object scope and std::map<int,int>, for the three
// MapLoadMode values.  The abstract scope's VisitKeys is the only code here that is not the repository's: it enumerates the keys of the
// document (NextKey / CurrentKey are contract-only) and hands each to the library's callback; the enumeration loop is expressed as its own
// inductive proof (see VisitKeys) because the callback's locals cannot be named in a CBMC loop frame.
#include "bitserializer/bit_serializer.h"
#include "bitserializer/serialization_detail/generic_map.h"
#include <map>
#include <set>
#include "bitserializer/serialization_detail/generic_set.h"
namespace verif_inst {
using namespace BitSerializer;
class AbsLoadMapScope : public TArchiveScope<SerializeMode::Load> {
public:
  using key_type = std::string;
  using supported_key_types = TSupportedKeyTypes<int, std::string>;
  explicit AbsLoadMapScope(SerializationContext& ctx) : TArchiveScope<SerializeMode::Load>(ctx) {}
  size_t GetEstimatedSize() const;
  bool NextKey();
  const int& CurrentKey() const;
  bool SerializeValue(const int& key, int& value);
  // "for each key of the document call fn(key)", written as the induction it is proved by: BeginVisit = any state reachable after some
  // number of keys (checks the invariant first), one more key, EndStep = the invariant holds again, EndVisit = state after the last key.
  void BeginVisit(); void EndStep(); void EndVisit();
  template <class F> void VisitKeys(F&& fn) { BeginVisit(); if (NextKey()) { fn(CurrentKey()); EndStep(); } EndVisit(); }
};
class AbsLoadSetScope : public TArchiveScope<SerializeMode::Load> {
public:
  explicit AbsLoadSetScope(SerializationContext& ctx) : TArchiveScope<SerializeMode::Load>(ctx) {}
  bool IsEnd() const;
  bool SerializeValue(int& value);
};
// abstract array scope whose items are objects (a multimap is stored as an array of {key,value} objects); only declarations - loading one
// pair through the generic Serialize() is a contract-only callee of the multimap loader (pair.h / the object dispatch are not under this contract)
class AbsPairObjectScope : public TArchiveScope<SerializeMode::Load> {
public:
  using key_type = std::string;
  using supported_key_types = TSupportedKeyTypes<std::string>;
  static constexpr char path_separator = '/';
  explicit AbsPairObjectScope(SerializationContext& ctx) : TArchiveScope<SerializeMode::Load>(ctx) {}
  bool SerializeValue(const std::string& key, int& value);
  std::string GetPath() const;
};
class AbsLoadPairArrayScope : public TArchiveScope<SerializeMode::Load> {
public:
  explicit AbsLoadPairArrayScope(SerializationContext& ctx) : TArchiveScope<SerializeMode::Load>(ctx) {}
  static constexpr bool is_binary = false;
  static constexpr char path_separator = '/';
  bool IsEnd() const;
  std::optional<AbsPairObjectScope> OpenObjectScope(size_t);
  std::string GetPath() const;
};
void load_multimap(AbsLoadPairArrayScope& scope, std::multimap<int, int>& cont) { BitSerializer::Detail::SerializeMultiMapImpl(scope, cont); }
void load_set(AbsLoadSetScope& scope, std::set<int>& cont) { BitSerializer::Detail::SerializeSetImpl(scope, cont); }
void load_map(AbsLoadMapScope& scope, std::map<int, int>& cont, MapLoadMode mode) { BitSerializer::Detail::SerializeMapImpl(scope, cont, mode); }
}
