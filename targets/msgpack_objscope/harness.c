/* CMsgPackReadObjectScope<IMsgPackReader> (msgpack_archive.h:664-900): loading named fields in ANY request order.
   Modular proof against an abstract reader (cursor g_cur = number of top-level values of this map consumed since the scope's start
   position; keys at even, values at odd cursor) and an abstract key holder (CVariableKey: "set?" + the pair index it was read at).
   Class invariant J:   mIndex <= N  /\  (key not set => g_cur == 2*mIndex)  /\  (key set => mIndex < N /\ g_cur == 2*mIndex+1 /\ key belongs to pair mIndex)
   while a child scope is open (J_child): key set, g_cur == 2*mIndex+2.
   Every method re-establishes J from an arbitrary J-state, for every map size N (loop contracts close the three loops):
   - FindValueByKey (through SerializeValue/Open*Scope): wrap-around search; found => cursor at the value of a pair whose key compared equal;
     not found => key reset, J holds, and NO pair of the map has an equal key (arbitrary witness pair w);
   - the scope never reads or skips beyond the last pair of its map; the destructor leaves the cursor exactly behind the map;
   - VisitKeys visits the N keys in order.  C20: the destructor calls SkipValue, which may raise -> known finding. */
#include "models/prelude.h"
#include "models/sv.h"
typedef struct { int _opaque; } std_variant_vstr_c8_vstr_wc_vstr_c16_vstr_c32;
typedef struct { int _opaque; } std_map_vstr_c8_vvec_vstr_c8_std_less_vstr_c8;
typedef struct { int _opaque; } std_tuple_vstr_c8_vsv_c8_i64_u64_f32_f64_CBinTimestamp;
typedef struct { int _opaque; } vstr_c8;
typedef struct { char __e; } std_nullopt_t;
static const std_nullopt_t m_std_nullopt = {0};
typedef struct { _Bool has; unsigned long size; } vopt_scope;
typedef vopt_scope vopt_CMsgPackReadArrayScope_IMsgPackReader; typedef vopt_scope vopt_CMsgPackReadObjectScope_IMsgPackReader; typedef vopt_scope vopt_CMsgPackReadBinaryScope_IMsgPackReader;
static inline vopt_scope vopt_none(std_nullopt_t n) { (void)n; vopt_scope o; o.has = 0; o.size = 0; return o; }
static inline _Bool vopt_has(const vopt_scope* o) { return o->has; }
#define vopt_CMsgPackReadArrayScope_IMsgPackReader_ctor__std_nullopt_t vopt_none
#define vopt_CMsgPackReadObjectScope_IMsgPackReader_ctor__std_nullopt_t vopt_none
#define vopt_CMsgPackReadBinaryScope_IMsgPackReader_ctor__std_nullopt_t vopt_none
#define vopt_CMsgPackReadArrayScope_IMsgPackReader_has_value___k vopt_has
#define vopt_CMsgPackReadObjectScope_IMsgPackReader_has_value___k vopt_has
#define vopt_CMsgPackReadBinaryScope_IMsgPackReader_has_value___k vopt_has
#include "gen.h"
static inline vopt_scope vopt_CMsgPackReadBinaryScope_IMsgPackReader_make(struct CMsgPackReadBinaryScope_IMsgPackReader* t) { vopt_scope o; o.has = 1; o.size = t->mSize; return o; }
static inline vopt_scope vopt_CMsgPackReadArrayScope_IMsgPackReader_make(struct CMsgPackReadArrayScope_IMsgPackReader* t) { vopt_scope o; o.has = 1; o.size = t->mSize; return o; }
static unsigned long g_child_start;
static inline vopt_scope vopt_CMsgPackReadObjectScope_IMsgPackReader_make(struct CMsgPackReadObjectScope_IMsgPackReader* t) { __CPROVER_assert(t->mStartPos == g_child_start && t->mIndex == 0, "C03: a new object scope remembers the reader position of its first key and starts at pair 0"); vopt_scope o; o.has = 1; o.size = t->mSize; return o; }

/* ---- ghost state of the abstract reader and key holder ---- */
static unsigned long g_N, g_P0, g_cur; static _Bool g_key_set; static unsigned long g_key_pair;
static unsigned long g_w; static _Bool g_eq_w;                 /* arbitrary witness pair and whether its key equals the requested key */
static _Bool g_matched; static unsigned long g_match_pair;      /* last pair whose key compared equal */
static _Bool g_value_read; static unsigned long g_value_pair;   /* pair whose value was read / whose header was consumed */
static unsigned long g_keys_read; static unsigned g_seeks; static _Bool g_after_exc, g_skip_failed;
static void rd_consume(void) { __CPROVER_assert(g_cur < 2 * g_N, "C03: the scope never reads or skips beyond the last key/value pair of its map"); g_cur++; }
static _Bool rd_raise(void) { if (nondet_bool()) { __verif_exc = EXC_ParsingException; return 1; } return 0; }
/* a read may fail before it consumes anything (mismatched type, truncated head) or after it consumed the value (overflow is detected after decoding) */
static _Bool rd_raise_after(void) { if (nondet_bool()) { __verif_exc = EXC_SerializationException; return 1; } return 0; }
/* g_skip_failed: a failed skip means damaged input at the cursor: the destructor's own skip then fails too (known finding KF-C20-objscope-dtor-throws) */
void IMsgPackReader_SkipValue(struct IMsgPackReader* r) { if (rd_raise()) { g_skip_failed = 1; return; } rd_consume(); }
void IMsgPackReader_SetPosition__u64(struct IMsgPackReader* r, unsigned long p) { __CPROVER_assert(p == g_P0, "C03: the only position the scope seeks to is the start of its map"); g_seeks++; g_cur = 0; }
int IMsgPackReader_ReadValueType(struct IMsgPackReader* r) { __CPROVER_assert(g_cur % 2 == 0 && g_cur < 2 * g_N, "C03: a key is examined only at a key position inside the map"); return nondet_int(); }
#define KEY_READ(NAME, T) _Bool NAME(struct IMsgPackReader* r, T* v) { if (rd_raise()) return 0; __CPROVER_assert(g_cur % 2 == 0, "C03: keys are read at key positions"); rd_consume(); if (rd_raise_after()) return 0; g_keys_read++; return 1; }
KEY_READ(IMsgPackReader_ReadValue__rvsv_c8, vsv_c8) KEY_READ(IMsgPackReader_ReadValue__ru64, unsigned long) KEY_READ(IMsgPackReader_ReadValue__ri64, long) KEY_READ(IMsgPackReader_ReadValue__rf64, double) KEY_READ(IMsgPackReader_ReadValue__rf32, float)
_Bool IMsgPackReader_ReadValue__rCBinTimestamp(struct IMsgPackReader* r, struct CBinTimestamp* v) { if (rd_raise()) return 0; __CPROVER_assert(g_cur % 2 == 0, "C03: keys are read at key positions"); rd_consume(); if (rd_raise_after()) return 0; g_keys_read++; return 1; }
static _Bool value_consume(void) { if (rd_raise()) return 0; __CPROVER_assert(g_cur % 2 == 1, "C03: a value is read at a value position"); g_value_read = 1; g_value_pair = g_cur / 2; rd_consume(); if (rd_raise_after()) return 0; return nondet_bool(); }
_Bool IMsgPackReader_ReadValue__ri32(struct IMsgPackReader* r, int* v) { _Bool ok = value_consume(); if (ok) *v = nondet_int(); return ok; }
/* container heads cannot overflow: they fail only before anything is consumed (mismatched type) or on damaged (truncated) input */
static _Bool size_consume(void) { if (rd_raise()) { if (nondet_bool()) g_skip_failed = 1; return 0; } __CPROVER_assert(g_cur % 2 == 1, "C03: a value is read at a value position"); g_value_read = 1; g_value_pair = g_cur / 2; rd_consume(); return nondet_bool(); }
_Bool IMsgPackReader_ReadArraySize__ru64(struct IMsgPackReader* r, unsigned long* v) { _Bool ok = size_consume(); if (ok) *v = nondet_ulong(); return ok; }
_Bool IMsgPackReader_ReadBinarySize__ru64(struct IMsgPackReader* r, unsigned long* v) { _Bool ok = size_consume(); if (ok) *v = nondet_ulong(); return ok; }
_Bool IMsgPackReader_ReadMapSize__ru64(struct IMsgPackReader* r, unsigned long* v) { _Bool ok = size_consume(); if (ok) *v = nondet_ulong(); return ok; }
#define KEYT struct CVariableKey_std_tuple_vstr_c8_vsv_c8_i64_u64_f32_f64_CBinTimestamp
#define KEYF(x) CVariableKey_std_tuple_vstr_c8_vsv_c8_i64_u64_f32_f64_CBinTimestamp_##x
_Bool KEYF(conv_b___k)(const KEYT* k) { return g_key_set; }
void KEYF(Reset)(KEYT* k) { g_key_set = 0; }
_Bool KEYF(op_eq__rkvstr_c8_k)(const KEYT* k, const vstr_c8* key) { if (!g_key_set) return 0; _Bool eq = g_key_pair == g_w ? g_eq_w : nondet_bool(); if (eq) { g_matched = 1; g_match_pair = g_key_pair; } return eq; }
static union { vsv_c8 sv; unsigned long u; long i; double d; float f; struct CBinTimestamp ts; } g_key_storage;
#define KEY_REF(NAME, T, FIELD) T* KEYF(NAME)(KEYT* k) { g_key_set = 1; g_key_pair = g_cur / 2; return &g_key_storage.FIELD; }
KEY_REF(GetValueRef_vsv_c8, vsv_c8, sv) KEY_REF(GetValueRef_u64, unsigned long, u) KEY_REF(GetValueRef_i64, long, i) KEY_REF(GetValueRef_f64, double, d) KEY_REF(GetValueRef_f32, float, f) KEY_REF(GetValueRef_CBinTimestamp, struct CBinTimestamp, ts)

/* ---- loop contracts ---- */
#define VISITED(c, m0, w) (((c) <= g_N - (m0) && (m0) <= (w) && (w) < (m0) + (c)) || ((c) > g_N - (m0) && ((w) >= (m0) || (w) < (c) - (g_N - (m0)))))
#define VERIF_LOOP_CMsgPackReadObjectScope_IMsgPackReader_FindValueByKey_rkvstr_c8__rkvstr_c8_1 \
  __CPROVER_assigns(c, self->mIndex, g_cur, g_key_set, g_key_pair, g_matched, g_match_pair, g_keys_read, g_seeks, g_skip_failed, __verif_exc, __verif_exc_code VERIF_TMPS_CMsgPackReadObjectScope_IMsgPackReader_FindValueByKey_rkvstr_c8__rkvstr_c8) \
  __CPROVER_loop_invariant(c <= self->mSize && self->mSize == g_N && self->mStartPos == g_P0 && self->mIndex <= g_N && g_cur == 2 * self->mIndex && __verif_exc == 0 && \
      __CPROVER_loop_entry(self->mIndex) <= g_N && (c <= g_N - __CPROVER_loop_entry(self->mIndex) ? self->mIndex == __CPROVER_loop_entry(self->mIndex) + c : self->mIndex == c - (g_N - __CPROVER_loop_entry(self->mIndex))) && \
      (!(g_w < g_N && VISITED(c, __CPROVER_loop_entry(self->mIndex), g_w)) || !g_eq_w)) \
  __CPROVER_decreases(self->mSize - c)
#define VERIF_LOOP_CMsgPackReadObjectScope_IMsgPackReader_dtor_1 \
  __CPROVER_assigns(c, self->mIndex, g_cur, g_skip_failed, __verif_exc, __verif_exc_code) \
  __CPROVER_loop_invariant(c == self->mIndex && self->mSize == g_N && self->mIndex <= g_N && g_cur <= 2 * self->mIndex && (g_after_exc || g_cur == 2 * self->mIndex) && !g_key_set) \
  __CPROVER_decreases(self->mSize - c)
#define VERIF_LOOP_CMsgPackReadObjectScope_IMsgPackReader_VisitKeys_lambda1_in_obj_visit_keys__xlambda1_in_obj_visit_keys_1 \
  __CPROVER_assigns(self->mIndex, g_cur, g_key_set, g_key_pair, g_keys_read, g_skip_failed, __verif_exc, __verif_exc_code) \
  __CPROVER_loop_invariant(self->mSize == g_N && self->mIndex <= g_N && g_cur == 2 * self->mIndex && !g_key_set && g_keys_read == self->mIndex && __verif_exc == 0) \
  __CPROVER_decreases(self->mSize - self->mIndex)
/* constructor of a child object scope: remembers the reader position (start of the map) and starts without a current key */
unsigned long IMsgPackReader_GetPosition___k(const struct IMsgPackReader* r) { g_child_start = nondet_ulong(); return g_child_start; }
void CVariableKey_std_tuple_vstr_c8_vsv_c8_i64_u64_f32_f64_CBinTimestamp_ctor(struct CVariableKey_std_tuple_vstr_c8_vsv_c8_i64_u64_f32_f64_CBinTimestamp* k) { (void)k; }
#include "gen.c"

static struct IMsgPackReader g_reader; static struct SerializationContext g_ctx; static vstr_c8 g_key;
#define OBJ struct CMsgPackReadObjectScope_IMsgPackReader
static _Bool J(const OBJ* s) { return s->mSize == g_N && s->mStartPos == g_P0 && s->mIndex <= g_N && (g_key_set ? (s->mIndex < g_N && g_cur == 2 * s->mIndex + 1 && g_key_pair == s->mIndex) : g_cur == 2 * s->mIndex); }
/* exception-state invariant JX (C20): whatever the destructor will still skip - the pending value (if a key is held) and two values per
   remaining pair - lies inside the map, i.e. the scope stays safely destructible after a failed request */
static _Bool JX(const OBJ* s) { return s->mSize == g_N && s->mIndex <= g_N && (!g_key_set || s->mIndex < g_N) && g_cur <= 2 * s->mIndex + (g_key_set ? 1 : 0); }
static void obj_init(OBJ* s, _Bool child_open) {
  g_N = nondet_ulong(); __CPROVER_assume(g_N <= ((unsigned long)1 << 40)); g_P0 = nondet_ulong();
  s->mMsgPackReader = &g_reader; s->__base_TArchiveScope.mSerializationContext = &g_ctx; s->__base_CMsgPackScopeBase.mParentScope = 0; s->mSize = g_N; s->mStartPos = g_P0; s->mIndex = nondet_ulong();
  g_cur = nondet_ulong(); g_key_set = nondet_bool(); g_key_pair = nondet_ulong(); g_w = nondet_ulong(); g_eq_w = nondet_bool(); g_matched = 0; g_value_read = 0; g_keys_read = 0; g_seeks = 0;
  if (child_open) __CPROVER_assume(s->mIndex < g_N && g_key_set && g_key_pair == s->mIndex && g_cur == 2 * s->mIndex + 2);   /* a child scope of pair mIndex is open and has consumed that value */
  else __CPROVER_assume(J(s));                                                                                              /* class invariant */
  __verif_exc = 0; __verif_exc_code = 0; g_after_exc = 0; g_skip_failed = 0;
}
void h_value(void) { OBJ s; obj_init(&s, 0); int v0 = nondet_int(), v = v0;
  _Bool ret = verif_inst_obj_value_i32__rCMsgPackReadObjectScope_IMsgPackReader_rkvstr_c8_ri32(&s, &g_key, &v);
  VERIF_ASSERT("C03", __verif_exc != 0 || J(&s), "after a named request the scope is consistent again (index, cursor and current key agree), whatever the request order");
  VERIF_ASSERT("C03", __verif_exc != 0 || !g_value_read || (g_matched && g_value_pair == g_match_pair && !g_key_set), "a value is only ever read from the pair whose key compared equal to the requested key");
  VERIF_ASSERT("C03", __verif_exc != 0 || g_value_read || (!ret && v == v0 && !g_key_set && !(g_w < g_N && g_eq_w)), "a request that reads nothing reports 'not loaded', leaves the target unchanged, and then NO pair of the map carries the requested key (arbitrary witness pair)");
  VERIF_ASSERT("C03,C05", __verif_exc != 0 || ret || v == v0, "a field reported as not loaded keeps its previous value");
  VERIF_ASSERT("C20,C03", __verif_exc == 0 || g_skip_failed || JX(&s), "when a request fails with an exception (other than a failed skip of damaged input) the scope stays safely destructible: everything its destructor will still skip lies inside its map");
  VERIF_CANARY(); }
#define H_OPEN(NAME) \
void h_open_##NAME(void) { OBJ s; obj_init(&s, 0); unsigned long i0 = s.mIndex; \
  _Bool ret = verif_inst_obj_open_##NAME##__rCMsgPackReadObjectScope_IMsgPackReader_rkvstr_c8(&s, &g_key); \
  VERIF_ASSERT("C03", __verif_exc != 0 || !ret || (g_matched && g_value_read && g_value_pair == g_match_pair && g_key_set && g_key_pair == s.mIndex && g_cur == 2 * s.mIndex + 2), "an opened child scope belongs to the pair whose key compared equal; the parent waits at that pair"); \
  VERIF_ASSERT("C03,C05", __verif_exc != 0 || ret || J(&s), "when no child scope is opened (absent key or skipped value) the scope is consistent again and exactly the offending value was consumed"); \
  VERIF_ASSERT("C03", __verif_exc != 0 || ret || g_value_read || !(g_w < g_N && g_eq_w), "an absent key means no pair of the map carries it"); \
  VERIF_ASSERT("C20,C03", __verif_exc == 0 || g_skip_failed || JX(&s), "when a request fails with an exception (other than a failed skip of damaged input) the scope stays safely destructible: everything its destructor will still skip lies inside its map"); \
  VERIF_CANARY(); }
H_OPEN(array) H_OPEN(object) H_OPEN(binary)
void h_finish_child(void) { OBJ s; obj_init(&s, 1);
  verif_inst_obj_finish_child__rCMsgPackReadObjectScope_IMsgPackReader(&s);
  VERIF_ASSERT("C03", __verif_exc == 0 && J(&s) && !g_key_set, "finishing a child scope moves the parent behind that pair and restores consistency");
  VERIF_CANARY(); }
void h_visit_keys(void) { OBJ s; obj_init(&s, 0);
  verif_inst_obj_visit_keys__rCMsgPackReadObjectScope_IMsgPackReader(&s);
  VERIF_ASSERT("C03", __verif_exc != 0 || (J(&s) && s.mIndex == g_N && g_cur == 2 * g_N && !g_key_set && g_keys_read == g_N && g_seeks == 1), "VisitKeys rewinds to the start of the map and visits each of its N keys exactly once, in order, ending behind the map - also after a partial read");
  VERIF_CANARY(); }
void h_destroy(void) { OBJ s; obj_init(&s, 0);
  verif_inst_obj_destroy__rCMsgPackReadObjectScope_IMsgPackReader(&s);
  VERIF_ASSERT("C03", __verif_exc != 0 || (g_cur == 2 * g_N && s.mIndex == g_N), "leaving the scope skips exactly what was left unread: the cursor ends directly behind the map, so the data that follows is read correctly");
  VERIF_CANARY(); }
void h_destroy_after_exc(void) { OBJ s; obj_init(&s, 0); s.mIndex = nondet_ulong(); g_cur = nondet_ulong(); g_key_set = nondet_bool(); __CPROVER_assume(JX(&s)); g_after_exc = 1;
  verif_inst_obj_destroy__rCMsgPackReadObjectScope_IMsgPackReader(&s);   /* rd_consume asserts that nothing beyond the map is skipped */
  VERIF_ASSERT("C20,C03", __verif_exc != 0 || (g_cur <= 2 * g_N && s.mIndex == g_N), "from any state a failed request can leave behind, the destructor stays inside the map");
  VERIF_CANARY(); }
/*@jobs
job entry=h_value props=C03,C05,C20 mode=direct loops=1 unwind=3
job entry=h_open_array props=C03,C05,C20 mode=direct loops=1 unwind=3
job entry=h_open_object props=C03,C05,C20 mode=direct loops=1 unwind=3
job entry=h_open_binary props=C03,C05,C20 mode=direct loops=1 unwind=3
job entry=h_finish_child props=C03 mode=direct unwind=3
job entry=h_visit_keys props=C03 mode=direct loops=1 unwind=3
job entry=h_destroy props=C03,C20,C02 mode=direct loops=1 unwind=3 kfmap=noexcept_escape:KF-C20-objscope-dtor-throws
job entry=h_destroy_after_exc props=C03,C20,C02 mode=direct loops=1 unwind=3 kfmap=noexcept_escape:KF-C20-objscope-dtor-throws
@*/
