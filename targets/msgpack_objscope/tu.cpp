// extraction TU: CMsgPackReadObjectScope<IMsgPackReader> (include/bitserializer/msgpack_archive.h) - named field access in any order.
// The reader (IMsgPackReader, virtual) and the key holder CVariableKey (std::tuple + pointer) are contract-only callees.
#include "bitserializer/msgpack_archive.h"
#include <string>
namespace verif_inst {
using namespace BitSerializer; using namespace BitSerializer::MsgPack::Detail;
using ObjScope = CMsgPackReadObjectScope<IMsgPackReader>;
bool obj_value_i32(ObjScope& s, const std::string& key, int& v) { return s.SerializeValue(key, v); }
bool obj_open_array(ObjScope& s, const std::string& key) { return s.OpenArrayScope(key, 0).has_value(); }
bool obj_open_object(ObjScope& s, const std::string& key) { return s.OpenObjectScope(key, 0).has_value(); }
bool obj_open_binary(ObjScope& s, const std::string& key) { return s.OpenBinaryScope(key, 0).has_value(); }
void obj_finish_child(ObjScope& s) { s.OnFinishChildScope(); }
void obj_visit_keys(ObjScope& s) { s.VisitKeys([](auto&&) {}); }
void obj_destroy(ObjScope& s) { s.~ObjScope(); }
}
