/* MsgPackVariableKey::operator==(integer) (include/bitserializer/msgpack_archive.h:76-100): the key just read from the document (stored as uint64_t
   or int64_t, whichever family the document used) is compared with the key a field is requested by, of ANY integer width and signedness.
   C03: the comparison is mathematical equality of the two integers - no narrowing of the stored key, no sign reinterpretation - for every
   stored value and every requested value; a key of another kind (string, float, timestamp, none) never equals an integer. */
#include "models/prelude.h"
#include "models/sv.h"
typedef __int128 mint;
typedef struct { int _opaque; } vstr_c8;
struct CBinTimestamp;
typedef struct { unsigned long u64; long i64; float f32; double f64; vsv_c8 sv; char other; } std_tuple_vstr_c8_vsv_c8_i64_u64_f32_f64_CBinTimestamp;
#define TUP std_tuple_vstr_c8_vsv_c8_i64_u64_f32_f64_CBinTimestamp
static inline const unsigned long* m_std_get_u64_vstr_c8_vsv_c8_i64_u64_f32_f64_CBinTimestamp__rkstd_tuple_vstr_c8_vsv_c8_i64_u64_f32_f64_CBinTimestamp(const TUP* t) { return &t->u64; }
static inline const long* m_std_get_i64_vstr_c8_vsv_c8_i64_u64_f32_f64_CBinTimestamp__rkstd_tuple_vstr_c8_vsv_c8_i64_u64_f32_f64_CBinTimestamp(const TUP* t) { return &t->i64; }
static inline unsigned long* m_std_get_u64_vstr_c8_vsv_c8_i64_u64_f32_f64_CBinTimestamp__rstd_tuple_vstr_c8_vsv_c8_i64_u64_f32_f64_CBinTimestamp(TUP* t) { return &t->u64; }
static inline long* m_std_get_i64_vstr_c8_vsv_c8_i64_u64_f32_f64_CBinTimestamp__rstd_tuple_vstr_c8_vsv_c8_i64_u64_f32_f64_CBinTimestamp(TUP* t) { return &t->i64; }
#include "gen.h"
#include "gen.c"
#define KEY struct CVariableKey_std_tuple_vstr_c8_vsv_c8_i64_u64_f32_f64_CBinTimestamp
#define H_EQ(T, CT, ND) \
void h_key_eq_##T(void) { KEY k; k.mTuple.u64 = nondet_ulong(); k.mTuple.i64 = nondet_long(); k.mLast = 0; CT v = ND(); int kind = nondet_int(); __CPROVER_assume(kind >= 0 && kind <= 3); __verif_exc = 0; \
  if (kind == 0) verif_inst_key_set_u64__rCVariableKey_std_tuple_vstr_c8_vsv_c8_i64_u64_f32_f64_CBinTimestamp_u64(&k, k.mTuple.u64);       /* the document's key was an unsigned integer */ \
  else if (kind == 1) verif_inst_key_set_i64__rCVariableKey_std_tuple_vstr_c8_vsv_c8_i64_u64_f32_f64_CBinTimestamp_i64(&k, k.mTuple.i64);  /* a signed integer */ \
  else if (kind == 2) k.mLast = &k.mTuple.other;                                                                                        /* a key of another kind */ \
  _Bool r = verif_inst_key_eq_##T##__rkCVariableKey_std_tuple_vstr_c8_vsv_c8_i64_u64_f32_f64_CBinTimestamp_rk##T(&k, &v); \
  _Bool expect = kind == 0 ? (mint)k.mTuple.u64 == (mint)v : kind == 1 ? (mint)k.mTuple.i64 == (mint)v : 0; \
  VERIF_ASSERT("C03", __verif_exc == 0 && r == expect, "an integer key of the document equals the requested integer key iff the two numbers are equal (no narrowing, no sign reinterpretation), for every width; other kinds of key never match"); \
  VERIF_ASSERT("C03", kind != 0 || k.mLast == &k.mTuple.u64, "storing a key makes its slot the current one"); \
  VERIF_CANARY(); }
H_EQ(u8, unsigned char, nondet_uchar) H_EQ(i8, signed char, nondet_schar) H_EQ(u16, unsigned short, nondet_ushort) H_EQ(i16, short, nondet_short)
H_EQ(u32, unsigned int, nondet_uint) H_EQ(i32, int, nondet_int) H_EQ(u64, unsigned long, nondet_ulong) H_EQ(i64, long, nondet_long)
/*@jobs
for T in u8 i8 u16 i16 u32 i32 u64 i64:
  job entry=h_key_eq_{T} props=C03 mode=direct unwind=3
@*/
