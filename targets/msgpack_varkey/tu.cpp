// extraction TU: MsgPackVariableKey (CVariableKey over the MsgPack key types, include/bitserializer/msgpack_archive.h:61-157): comparison of the
// key read from the document with the key a field is requested by, for every integer width.
#include "bitserializer/msgpack_archive.h"
namespace verif_inst {
using namespace BitSerializer::MsgPack::Detail;
bool key_eq_u8(const MsgPackVariableKey& k, const uint8_t& v) { return k == v; }
bool key_eq_i8(const MsgPackVariableKey& k, const int8_t& v) { return k == v; }
bool key_eq_u16(const MsgPackVariableKey& k, const uint16_t& v) { return k == v; }
bool key_eq_i16(const MsgPackVariableKey& k, const int16_t& v) { return k == v; }
bool key_eq_u32(const MsgPackVariableKey& k, const uint32_t& v) { return k == v; }
bool key_eq_i32(const MsgPackVariableKey& k, const int32_t& v) { return k == v; }
bool key_eq_u64(const MsgPackVariableKey& k, const uint64_t& v) { return k == v; }
bool key_eq_i64(const MsgPackVariableKey& k, const int64_t& v) { return k == v; }
void key_set_u64(MsgPackVariableKey& k, uint64_t v) { k.GetValueRef<uint64_t>() = v; }
void key_set_i64(MsgPackVariableKey& k, int64_t v) { k.GetValueRef<int64_t>() = v; }
}
