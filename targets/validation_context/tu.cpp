// extraction TU: SerializationContext::AddValidationError / OnFinishSerialization (serialization_context.h)
#include "bitserializer/serialization_detail/serialization_context.h"
namespace verif_inst {
using namespace BitSerializer;
void add_error(SerializationContext& ctx, std::string path, std::string msg) { ctx.AddValidationError(std::move(path), std::move(msg)); }
void finish(SerializationContext& ctx) { ctx.OnFinishSerialization(); }
}
