/* SerializationContext::AddValidationError / OnFinishSerialization (serialization_context.h) against an abstract map path -> list of messages.
   C17: an error is appended to the list of its field path in call order (first error of a path creates the entry); ValidationException is raised
   immediately exactly when maxValidationErrors > 0 and that many distinct fields have failed; at the end of loading it is raised iff at least
   one validator failed. */
#include "models/prelude.h"
typedef struct { int id; } vstr_c8;
typedef struct { int _o; } valloc_vstr_c8; static inline valloc_vstr_c8 valloc_vstr_c8_ctor(void) { valloc_vstr_c8 a; a._o = 0; return a; }
typedef struct { const vstr_c8* p; size_t n; } std_initializer_list_vstr_c8;
typedef struct { size_t count; int last_id; } vvec_vstr_c8;                                  /* list of messages: length + id of the last message */
typedef struct { vstr_c8 first; vvec_vstr_c8 second; } vpair;
typedef struct { size_t paths; _Bool has_path; vpair entry; unsigned finds, emplaces; _Bool has_next; vpair next; } std_map_vstr_c8_vvec_vstr_c8_std_less_vstr_c8;   /* next: the entry of the smallest GREATER path (an ordered map: it may have this path as a prefix, e.g. "/Items" < "/Items/1/Qty") */
static _Bool g_next_has_prefix;   /* abstract map: number of distinct paths + the entry of THE path of this call */
typedef struct { vpair* p; } std_Rb_tree_iterator_std_pair_kvstr_c8_vvec_vstr_c8;
typedef struct { int _opaque; } std_variant_vstr_c8_vstr_wc_vstr_c16_vstr_c32;
#define MAP std_map_vstr_c8_vvec_vstr_c8_std_less_vstr_c8
#define IT std_Rb_tree_iterator_std_pair_kvstr_c8_vvec_vstr_c8
static inline IT std_map_vstr_c8_vvec_vstr_c8_std_less_vstr_c8_find__rkvstr_c8(MAP* m, const vstr_c8* k) { IT it; m->finds++; it.p = m->has_path ? &m->entry : (vpair*)0; return it; }
/* ordered-map operations a rewrite of the lookup may use */
static inline IT std_map_vstr_c8_vvec_vstr_c8_std_less_vstr_c8_lower_bound__rkvstr_c8(MAP* m, const vstr_c8* k) { IT it; m->finds++; it.p = m->has_path ? &m->entry : (m->has_next ? &m->next : (vpair*)0); return it; }
static inline IT std_map_vstr_c8_vvec_vstr_c8_std_less_vstr_c8_upper_bound__rkvstr_c8(MAP* m, const vstr_c8* k) { IT it; m->finds++; it.p = m->has_next ? &m->next : (vpair*)0; return it; }
static inline size_t vstr_c8_size___k(const vstr_c8* s) { return 8; }
static inline int vstr_c8_compare__u64_u64_rkvstr_c8_k(const vstr_c8* s, unsigned long pos, unsigned long n, const vstr_c8* o) { if (s->id == o->id) return 0; if (s->id == 2 && o->id == 1) return g_next_has_prefix ? 0 : 1; return 1; }
static inline int vstr_c8_compare__rkvstr_c8_k(const vstr_c8* s, const vstr_c8* o) { return s->id == o->id ? 0 : (s->id < o->id ? -1 : 1); }
static inline _Bool m_std_operator_op_eq_c8__rkvstr_c8_rkvstr_c8(const vstr_c8* a, const vstr_c8* b) { return a->id == b->id; }
static inline _Bool m_std_operator_op_ne__rkstd_Rb_tree_iterator_std_pair_kvstr_c8_vvec_vstr_c8_rkstd_Rb_tree_iterator_std_pair_kvstr_c8_vvec_vstr_c8(const std_Rb_tree_iterator_std_pair_kvstr_c8_vvec_vstr_c8* a, const std_Rb_tree_iterator_std_pair_kvstr_c8_vvec_vstr_c8* b) { return a->p != b->p; }
typedef std_Rb_tree_iterator_std_pair_kvstr_c8_vvec_vstr_c8 std_Rb_tree_const_iterator_std_pair_kvstr_c8_vvec_vstr_c8;
static inline std_Rb_tree_iterator_std_pair_kvstr_c8_vvec_vstr_c8 std_Rb_tree_const_iterator_std_pair_kvstr_c8_vvec_vstr_c8_ctor__rkstd_Rb_tree_iterator_std_pair_kvstr_c8_vvec_vstr_c8(const std_Rb_tree_iterator_std_pair_kvstr_c8_vvec_vstr_c8* i) { return *i; }
static inline IT std_map_vstr_c8_vvec_vstr_c8_std_less_vstr_c8_end(MAP* m) { IT it; it.p = 0; return it; }
static inline _Bool m_std_operator_op_eq__rkstd_Rb_tree_iterator_std_pair_kvstr_c8_vvec_vstr_c8_rkstd_Rb_tree_iterator_std_pair_kvstr_c8_vvec_vstr_c8(const IT* a, const IT* b) { return a->p == b->p; }
static inline vpair* std_Rb_tree_iterator_std_pair_kvstr_c8_vvec_vstr_c8_op_arrow___k(const IT* it) { __CPROVER_assert(it->p != 0, "MODEL: the end iterator is not dereferenced"); return it->p; }
static inline vvec_vstr_c8 vvec_vstr_c8_ctor__std_initializer_list_vstr_c8_rkvalloc_vstr_c8(std_initializer_list_vstr_c8 il, const valloc_vstr_c8* a) { vvec_vstr_c8 v; v.count = il.n; v.last_id = il.n ? il.p[il.n - 1].id : 0; return v; }
static inline void vvec_vstr_c8_push_back__xvstr_c8(vvec_vstr_c8* v, vstr_c8* s) { v->count++; v->last_id = s->id; }
static inline void std_map_vstr_c8_vvec_vstr_c8_std_less_vstr_c8_try_emplace_vvec_vstr_c8__xvstr_c8_xvvec_vstr_c8(MAP* m, vstr_c8* k, vvec_vstr_c8* v) { m->emplaces++; if (!m->has_path) { m->has_path = 1; m->paths++; m->entry.first = *k; m->entry.second = *v; } }
static inline IT std_map_vstr_c8_vvec_vstr_c8_std_less_vstr_c8_emplace_hint_vstr_c8_vvec_vstr_c8__std_Rb_tree_const_iterator_std_pair_kvstr_c8_vvec_vstr_c8_xvstr_c8_xvvec_vstr_c8(MAP* m, IT hint, vstr_c8* k, vvec_vstr_c8* v) { (void)hint; m->emplaces++; if (!m->has_path) { m->has_path = 1; m->paths++; m->entry.first = *k; m->entry.second = *v; } IT it; it.p = &m->entry; return it; }
static inline size_t std_map_vstr_c8_vvec_vstr_c8_std_less_vstr_c8_size___k(const MAP* m) { return m->paths; }
static inline _Bool std_map_vstr_c8_vvec_vstr_c8_std_less_vstr_c8_empty___k(const MAP* m) { return m->paths == 0; }
#include "gen.h"
#include "gen.c"
static struct SerializationOptions g_opt;
void h_add(void) { struct SerializationContext c; c.mSerializationOptions = &g_opt; g_opt.maxValidationErrors = nondet_uint();
  c.mErrorsMap.paths = nondet_size_t(); c.mErrorsMap.has_path = nondet_bool(); c.mErrorsMap.entry.second.count = nondet_size_t(); c.mErrorsMap.entry.second.last_id = nondet_int(); c.mErrorsMap.finds = 0; c.mErrorsMap.emplaces = 0; c.mErrorsMap.has_next = nondet_bool(); c.mErrorsMap.next.first.id = 2; c.mErrorsMap.next.second.count = nondet_size_t(); c.mErrorsMap.next.second.last_id = nondet_int(); g_next_has_prefix = nondet_bool(); size_t next_n0 = c.mErrorsMap.next.second.count; int next_last0 = c.mErrorsMap.next.second.last_id;
  __CPROVER_assume(c.mErrorsMap.paths < ((size_t)1 << 60) && c.mErrorsMap.entry.second.count < ((size_t)1 << 60) && (!c.mErrorsMap.has_path || (c.mErrorsMap.paths >= 1 && c.mErrorsMap.entry.second.count >= 1)));   /* map invariant: the path's entry is counted and non-empty */
  __CPROVER_assume(g_opt.maxValidationErrors == 0 || c.mErrorsMap.paths < g_opt.maxValidationErrors);   /* otherwise the exception would already have been raised by an earlier call */
  size_t paths0 = c.mErrorsMap.paths; _Bool had = c.mErrorsMap.has_path; size_t n0 = had ? c.mErrorsMap.entry.second.count : 0;
  vstr_c8 path; path.id = 1; vstr_c8 msg; msg.id = nondet_int(); __verif_exc = 0;
  verif_inst_add_error__rSerializationContext_vstr_c8_vstr_c8(&c, path, msg);
  VERIF_ASSERT("C17", c.mErrorsMap.has_path && c.mErrorsMap.entry.second.count == n0 + 1 && c.mErrorsMap.entry.second.last_id == msg.id, "the message is appended at the end of the list of its field path (declaration/call order is kept)");
  VERIF_ASSERT("C17", c.mErrorsMap.next.second.count == next_n0 && c.mErrorsMap.next.second.last_id == next_last0, "the messages of every OTHER field stay untouched - also of a field whose path merely starts with this path");
  VERIF_ASSERT("C17", c.mErrorsMap.paths == paths0 + (had ? 0 : 1), "a new field path is created exactly when the field had no error before");
  VERIF_ASSERT("C17", (__verif_exc == EXC_ValidationException) == (g_opt.maxValidationErrors > 0 && c.mErrorsMap.paths == g_opt.maxValidationErrors) && (__verif_exc == 0 || __verif_exc == EXC_ValidationException), "ValidationException is raised immediately exactly when maxValidationErrors > 0 and that many distinct fields have failed");
  VERIF_CANARY(); }
void h_finish(void) { struct SerializationContext c; c.mSerializationOptions = &g_opt; c.mErrorsMap.paths = nondet_size_t(); c.mErrorsMap.has_path = nondet_bool(); __verif_exc = 0;
  verif_inst_finish__rSerializationContext(&c);
  VERIF_ASSERT("C17", (__verif_exc == EXC_ValidationException) == (c.mErrorsMap.paths != 0) && (__verif_exc == 0 || __verif_exc == EXC_ValidationException), "at the end of a load ValidationException is raised if and only if at least one validator failed");
  VERIF_CANARY(); }
/*@jobs
job entry=h_add props=C17 mode=direct unwind=2
job entry=h_finish props=C17 mode=direct unwind=2
@*/
