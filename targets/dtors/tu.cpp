// extraction TU: every user-written destructor of the MsgPack and CSV archive scopes (msgpack_archive.h, csv_archive.h, src/*/..._archive.cpp).
// cxx2c generates a "noexcept_escape" obligation for every destructor: no exception may leave it (implicit noexcept => std::terminate).
#include "bitserializer/msgpack_archive.h"
#include "bitserializer/csv_archive.h"
#include "../../../repo/src/msgpack/msgpack_archive.cpp"
#include "../../../repo/src/csv/csv_archive.cpp"
namespace verif_inst {
using namespace BitSerializer; using namespace BitSerializer::MsgPack::Detail;
using RArr = CMsgPackReadArrayScope<IMsgPackReader>; using RBin = CMsgPackReadBinaryScope<IMsgPackReader>;
using WArr = CMsgPackWriteArrayScope<IMsgPackWriter>; using WObj = CMsgPackWriteObjectScope<IMsgPackWriter>; using WBin = CMsgPackWriteBinaryScope<IMsgPackWriter>;
void d_rarr(RArr& s) { s.~RArr(); }
void d_rbin(RBin& s) { s.~RBin(); }
void d_warr(WArr& s) { s.~WArr(); }
void d_wobj(WObj& s) { s.~WObj(); }
void d_wbin(WBin& s) { s.~WBin(); }
void d_csv_wobj(BitSerializer::Csv::Detail::CCsvWriteObjectScope& s) { using T = BitSerializer::Csv::Detail::CCsvWriteObjectScope; s.~T(); }
void d_csv_robj(BitSerializer::Csv::Detail::CCsvReadObjectScope& s) { using T = BitSerializer::Csv::Detail::CCsvReadObjectScope; s.~T(); }
void d_csv_warr(BitSerializer::Csv::Detail::CsvWriteArrayScope& s) { using T = BitSerializer::Csv::Detail::CsvWriteArrayScope; s.~T(); }
void d_csv_rarr(BitSerializer::Csv::Detail::CsvReadArrayScope& s) { using T = BitSerializer::Csv::Detail::CsvReadArrayScope; s.~T(); }
void d_mp_wroot(MsgPackWriteRootScope& s) { s.~MsgPackWriteRootScope(); }
void d_mp_rroot(MsgPackReadRootScope& s) { s.~MsgPackReadRootScope(); }
void d_csv_wroot(BitSerializer::Csv::Detail::CsvWriteRootScope& s) { using T = BitSerializer::Csv::Detail::CsvWriteRootScope; s.~T(); }
void d_csv_rroot(BitSerializer::Csv::Detail::CsvReadRootScope& s) { using T = BitSerializer::Csv::Detail::CsvReadRootScope; s.~T(); }
}
