/* Every user-written or implicit destructor of the MsgPack / CSV archive scopes, extracted with its base and member destructor calls.
   C20: no exception may leave a destructor (cxx2c emits a noexcept_escape obligation at every call that can raise inside one), and the
   root scopes release the reader / writer they own exactly once (no leak, no double delete).
   Interface contracts used: ICsvWriter::NextLine may raise (csv_writers.cpp:112,167,177,185 - row width mismatch, unencodable text);
   CMsgPackScopeBase::OnFinishChildScope (virtual; overrides proved not to raise in msgpack_objscope / msgpack_scopes) does not raise. */
#include "models/prelude.h"
typedef struct { int _opaque; } std_variant_vstr_c8_vstr_wc_vstr_c16_vstr_c32;
typedef struct { int _opaque; } std_map_vstr_c8_vvec_vstr_c8_std_less_vstr_c8;
#include "gen.h"
static void* g_owned; static unsigned g_deleted, g_bad_delete, g_parent_notified;
static void model_delete(void* p) { if (p == 0) return; if (p == g_owned && g_deleted == 0) g_deleted = 1; else g_bad_delete++; }
void m_delete_IMsgPackWriter(struct IMsgPackWriter* p) { model_delete(p); }
void m_delete_IMsgPackReader(struct IMsgPackReader* p) { model_delete(p); }
void m_delete_ICsvWriter(struct ICsvWriter* p) { model_delete(p); }
void m_delete_ICsvReader(struct ICsvReader* p) { model_delete(p); }
void ICsvWriter_NextLine(struct ICsvWriter* w) { if (nondet_bool()) __verif_exc = EXC_SerializationException; }
void CMsgPackScopeBase_OnFinishChildScope__virtual(struct CMsgPackScopeBase* p) { g_parent_notified++; }
#include "gen.c"
static void init(void) { __verif_exc = 0; __verif_exc_code = 0; g_deleted = 0; g_bad_delete = 0; g_parent_notified = 0; }
#define H_ROOT(NAME, TYPE, FIELD, ITYPE, FN) \
void h_##NAME(void) { struct TYPE s; struct ITYPE obj; init(); g_owned = &obj; s.FIELD = &obj; \
  FN(&s); \
  VERIF_ASSERT("C20", __verif_exc == 0 && g_deleted == 1 && g_bad_delete == 0, "the root scope's destructor releases the reader/writer it owns exactly once and raises nothing"); \
  VERIF_CANARY(); }
H_ROOT(mp_wroot, MsgPackWriteRootScope, mMsgPackWriter, IMsgPackWriter, verif_inst_d_mp_wroot__rMsgPackWriteRootScope)
H_ROOT(mp_rroot, MsgPackReadRootScope, mMsgPackReader, IMsgPackReader, verif_inst_d_mp_rroot__rMsgPackReadRootScope)
H_ROOT(csv_wroot, CsvWriteRootScope, mCsvWriter, ICsvWriter, verif_inst_d_csv_wroot__rCsvWriteRootScope)
H_ROOT(csv_rroot, CsvReadRootScope, mCsvReader, ICsvReader, verif_inst_d_csv_rroot__rCsvReadRootScope)
#define H_CHILD(NAME, TYPE, FN) \
void h_##NAME(void) { struct TYPE s; struct CMsgPackScopeBase parent; init(); s.__base_CMsgPackScopeBase.mParentScope = nondet_bool() ? &parent : 0; \
  FN(&s); \
  VERIF_ASSERT("C20,C05", __verif_exc == 0 && g_parent_notified == (s.__base_CMsgPackScopeBase.mParentScope ? 1 : 0) && g_bad_delete == 0 && g_deleted == 0, "a child read scope's destructor raises nothing, notifies its parent exactly once (so the parent's index advances past the container) and deletes nothing it does not own"); \
  VERIF_CANARY(); }
H_CHILD(rarr, CMsgPackReadArrayScope_IMsgPackReader, verif_inst_d_rarr__rCMsgPackReadArrayScope_IMsgPackReader)
H_CHILD(rbin, CMsgPackReadBinaryScope_IMsgPackReader, verif_inst_d_rbin__rCMsgPackReadBinaryScope_IMsgPackReader)
#define H_PLAIN(NAME, TYPE, FN, INIT) \
void h_##NAME(void) { struct TYPE s; init(); INIT; \
  FN(&s); \
  VERIF_ASSERT("C20", __verif_exc == 0 && g_bad_delete == 0 && g_deleted == 0, "the scope's destructor raises nothing and deletes nothing it does not own"); \
  VERIF_CANARY(); }
static struct ICsvWriter g_csvw; static struct ICsvReader g_csvr; static struct IMsgPackWriter g_mpw;
H_PLAIN(warr, CMsgPackWriteArrayScope_IMsgPackWriter, verif_inst_d_warr__rCMsgPackWriteArrayScope_IMsgPackWriter, s.mMsgPackWriter = &g_mpw)
H_PLAIN(wobj, CMsgPackWriteObjectScope_IMsgPackWriter, verif_inst_d_wobj__rCMsgPackWriteObjectScope_IMsgPackWriter, s.mMsgPackWriter = &g_mpw)
H_PLAIN(wbin, CMsgPackWriteBinaryScope_IMsgPackWriter, verif_inst_d_wbin__rCMsgPackWriteBinaryScope_IMsgPackWriter, s.mMsgPackWriter = &g_mpw)
H_PLAIN(csv_robj, CCsvReadObjectScope, verif_inst_d_csv_robj__rCCsvReadObjectScope, s.mCsvReader = &g_csvr)
H_PLAIN(csv_warr, CsvWriteArrayScope, verif_inst_d_csv_warr__rCsvWriteArrayScope, s.mCsvWriter = &g_csvw)
H_PLAIN(csv_rarr, CsvReadArrayScope, verif_inst_d_csv_rarr__rCsvReadArrayScope, s.mCsvReader = &g_csvr)
/* ~CCsvWriteObjectScope commits the row (NextLine), which raises on a row-width mismatch or unencodable text: known finding */
void h_csv_wobj(void) { struct CCsvWriteObjectScope s; init(); s.mCsvWriter = &g_csvw;
  verif_inst_d_csv_wobj__rCCsvWriteObjectScope(&s);
  VERIF_ASSERT("C20", g_bad_delete == 0 && g_deleted == 0, "the scope's destructor deletes nothing it does not own");
  VERIF_CANARY(); }
/*@jobs
for H in mp_wroot mp_rroot csv_wroot csv_rroot rarr rbin warr wobj wbin csv_robj csv_warr csv_rarr:
  job entry=h_{H} props=C20,C02 mode=direct unwind=2
job entry=h_csv_wobj props=C20,C02 mode=direct unwind=2 kfmap=noexcept_escape:KF-C20-csv-row-dtor-throws
@*/
