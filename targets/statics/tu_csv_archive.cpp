#include "../../../repo/src/csv/csv_archive.cpp"
