#include "../../../repo/src/common/binary_stream_reader.cpp"
