/* job declaration only: the check of this target is the static-storage inventory + access classification (cxx2c --inventory) */
/*@jobs
job entry=statics props=C19 mode=inventory
@*/
