#include "../../../repo/src/msgpack/msgpack_writers.cpp"
