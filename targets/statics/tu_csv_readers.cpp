#include "../../../repo/src/csv/csv_readers.cpp"
