// inventory TU 1: every public header of the library (YAML adapter excepted: rapidyaml is not installed in this image) with
// representative instantiations, so that static members / static locals of templates are seen both as patterns and instantiated.
#include "bitserializer/bit_serializer.h"
#include "bitserializer/convert.h"
#include "bitserializer/msgpack_archive.h"
#include "bitserializer/csv_archive.h"
#include "bitserializer/rapidjson_archive.h"
#include "bitserializer/pugixml_archive.h"
#include "bitserializer/types/std/array.h"
#include "bitserializer/types/std/atomic.h"
#include "bitserializer/types/std/bitset.h"
#include "bitserializer/types/std/chrono.h"
#include "bitserializer/types/std/ctime.h"
#include "bitserializer/types/std/deque.h"
#include "bitserializer/types/std/filesystem.h"
#include "bitserializer/types/std/forward_list.h"
#include "bitserializer/types/std/list.h"
#include "bitserializer/types/std/map.h"
#include "bitserializer/types/std/memory.h"
#include "bitserializer/types/std/optional.h"
#include "bitserializer/types/std/pair.h"
#include "bitserializer/types/std/queue.h"
#include "bitserializer/types/std/set.h"
#include "bitserializer/types/std/stack.h"
#include "bitserializer/types/std/tuple.h"
#include "bitserializer/types/std/unordered_map.h"
#include "bitserializer/types/std/unordered_set.h"
#include "bitserializer/types/std/valarray.h"
#include "bitserializer/types/std/vector.h"
namespace verif_inst {
struct Sample { int a = 0; std::pair<int, std::string> p; std::vector<int> v; template <class A> void Serialize(A& ar) { ar << BitSerializer::KeyValue("a", a) << BitSerializer::KeyValue("p", p) << BitSerializer::KeyValue("v", v); } };
inline void use_all() { Sample s; std::string out;
  BitSerializer::SaveObject<BitSerializer::MsgPack::MsgPackArchive>(s, out); BitSerializer::LoadObject<BitSerializer::MsgPack::MsgPackArchive>(s, out);
  BitSerializer::SaveObject<BitSerializer::Json::RapidJson::JsonArchive>(s, out); BitSerializer::LoadObject<BitSerializer::Json::RapidJson::JsonArchive>(s, out);
  BitSerializer::SaveObject<BitSerializer::Xml::PugiXml::XmlArchive>(s, out); BitSerializer::LoadObject<BitSerializer::Xml::PugiXml::XmlArchive>(s, out);
  (void)BitSerializer::Convert::ToString(BitSerializer::SerializationErrorCode::ParsingError); }
}
