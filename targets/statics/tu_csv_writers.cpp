#include "../../../repo/src/csv/csv_writers.cpp"
