#include "../../../repo/src/msgpack/msgpack_archive.cpp"
