#include "../../../repo/src/msgpack/msgpack_readers.cpp"
