// extraction TU: the byte-order wrappers Utf16Be / Utf32Be (non-native endianness on this platform) of convert_utf.h:
// Decode goes through Memory::ReverseEndianIterator, Encode through Memory::Reverse over the appended range.
#include "bitserializer/conversion_detail/convert_utf.h"
#include <string>
namespace verif_inst {
using namespace BitSerializer::Convert::Utf;
#define W(NAME, CLS, FN, INCH, OUTCH) \
  UtfEncodingResult<const INCH*> NAME(const INCH* in, const INCH* end, std::basic_string<OUTCH>& out, UtfEncodingErrorPolicy policy, const OUTCH* mark) { return CLS::FN(in, end, out, policy, mark); }
W(u16be_to_u32, Utf16Be, Decode, char16_t, char32_t)
W(u16be_to_u8, Utf16Be, Decode, char16_t, char)
W(u32be_to_u8, Utf32Be, Decode, char32_t, char)
W(u8_to_u16be, Utf16Be, Encode, char, char16_t)
W(u8_to_u32be, Utf32Be, Encode, char, char32_t)
W(u16le_to_u8, Utf16Le, Decode, char16_t, char)
// the iterator adapter itself and the scalar byte reversal
char16_t adapter_deref16(const char16_t* p) { auto it = BitSerializer::Memory::MakeIteratorAdapter<BitSerializer::Memory::Endian::big>(p); return *it; }
char32_t adapter_deref32(const char32_t* p) { auto it = BitSerializer::Memory::MakeIteratorAdapter<BitSerializer::Memory::Endian::big>(p); return *it; }
const char16_t* adapter_next16(const char16_t* p) { auto it = BitSerializer::Memory::MakeIteratorAdapter<BitSerializer::Memory::Endian::big>(p); ++it; return it; }
bool adapter_eq16(const char16_t* a, const char16_t* b) { return BitSerializer::Memory::MakeIteratorAdapter<BitSerializer::Memory::Endian::big>(a) == BitSerializer::Memory::MakeIteratorAdapter<BitSerializer::Memory::Endian::big>(b); }
const char16_t* adapter_native16(const char16_t* p) { return BitSerializer::Memory::MakeIteratorAdapter<BitSerializer::Memory::Endian::little>(p); }
}
