/* Byte-order wrappers of convert_utf.h / memory_utils.h (the non-native encodings UTF-16BE / UTF-32BE on this little-endian platform):
   Memory::Reverse (scalar and range), Memory::ReverseEndianIterator, Utf16Be/Utf32Be::Decode and ::Encode, Utf16Le::Decode.
   The core transcoders Utf16/Utf32::Decode/Encode are contract-only here (their per-character steps are proved in utf_transcode for raw
   pointers; the adapter instantiations are the same template text reading units through operator*, which is proved below).
   C11/C13: - the adapter delivers exactly the byte-swapped unit at its base position, advances and compares like the base pointer and converts
              back to it; for the native byte order no adapter is used at all;
            - a ...Be::Decode is the core decoder applied to the adapted [in,end) and reports the base position of where the core stopped,
              with the same error code and count;
            - a ...Be::Encode appends what the core encoder appends and then byte-swaps EXACTLY the appended units (arbitrary witness unit,
              loop contract): nothing that was in the string before is touched, nothing appended stays unswapped. */
#include "models/prelude.h"
#include <stdlib.h>
typedef struct { uint16_t* data; size_t size; } vstr_c16;
typedef struct { uint32_t* data; size_t size; } vstr_c32;
typedef struct { int _opaque; } vstr_c8;
typedef struct { uint16_t* p; } vit_pc16_vstr_c16;
typedef struct { uint32_t* p; } vit_pc32_vstr_c32;
#define STRM(T, S, IT, CH) \
static inline size_t S##_size___k(const S* s) { return s->size; } \
static inline IT S##_begin(S* s) { IT i; i.p = s->data; return i; } \
static inline IT S##_end(S* s) { IT i; i.p = s->data + s->size; return i; } \
static inline IT IT##_op_plus__i64_k(const IT* a, long d) { IT r; r.p = a->p + d; return r; } \
static inline IT* IT##_op_inc(IT* a) { a->p++; return a; } \
static inline CH* IT##_op_star___k(const IT* a) { return a->p; }
STRM(c16, vstr_c16, vit_pc16_vstr_c16, uint16_t) STRM(c32, vstr_c32, vit_pc32_vstr_c32, uint32_t)
static inline _Bool m_gnu_cxx_operator_op_ne_pc16_vstr_c16__rkvit_pc16_vstr_c16_rkvit_pc16_vstr_c16(const vit_pc16_vstr_c16* a, const vit_pc16_vstr_c16* b) { return a->p != b->p; }
static inline _Bool m_gnu_cxx_operator_op_ne_pc32_vstr_c32__rkvit_pc32_vstr_c32_rkvit_pc32_vstr_c32(const vit_pc32_vstr_c32* a, const vit_pc32_vstr_c32* b) { return a->p != b->p; }
#include "gen.h"
#define PO(p) ((unsigned long)__CPROVER_POINTER_OFFSET(p))
/* ---- contracts of the core transcoders ---- */
static const void* g_core_in; static const void* g_core_end; static unsigned g_core_calls; static int g_core_code; static size_t g_core_adv, g_core_cnt; static _Bool g_core_adapted;
#define CORE_DEC_ADAPTED(NAME, RES, ITS, CH, OUT) \
struct RES NAME(struct ITS in, const struct ITS* end, OUT* out, int policy, const void* mark) { g_core_calls++; g_core_in = in.mBaseIt; g_core_end = end->mBaseIt; g_core_adapted = 1; struct RES r; \
  g_core_code = nondet_int(); g_core_cnt = nondet_size_t(); g_core_adv = nondet_size_t(); __CPROVER_assume(g_core_adv <= (size_t)(end->mBaseIt - in.mBaseIt)); r.ErrorCode = g_core_code; r.Iterator.mBaseIt = in.mBaseIt + g_core_adv; r.InvalidSequencesCount = g_core_cnt; return r; }
CORE_DEC_ADAPTED(Utf16_Decode_ReverseEndianIterator_pkc16_c32_valloc_c32__ReverseEndianIterator_pkc16_rkReverseEndianIterator_pkc16_rvstr_c32_UtfEncodingErrorPolicy_pkc32, UtfEncodingResult_ReverseEndianIterator_pkc16, ReverseEndianIterator_pkc16, uint16_t, vstr_c32)
CORE_DEC_ADAPTED(Utf16_Decode_ReverseEndianIterator_pkc16_c8_valloc_c8__ReverseEndianIterator_pkc16_rkReverseEndianIterator_pkc16_rvstr_c8_UtfEncodingErrorPolicy_pkc8, UtfEncodingResult_ReverseEndianIterator_pkc16, ReverseEndianIterator_pkc16, uint16_t, vstr_c8)
CORE_DEC_ADAPTED(Utf32_Decode_ReverseEndianIterator_pkc32_c8_valloc_c8__ReverseEndianIterator_pkc32_rkReverseEndianIterator_pkc32_rvstr_c8_UtfEncodingErrorPolicy_pkc8, UtfEncodingResult_ReverseEndianIterator_pkc32, ReverseEndianIterator_pkc32, uint32_t, vstr_c8)
struct UtfEncodingResult_pkc16 Utf16_Decode_pkc16_c8_valloc_c8__pkc16_rkpkc16_rvstr_c8_UtfEncodingErrorPolicy_pkc8(const uint16_t* in, const uint16_t* const* end, vstr_c8* out, int policy, const char* mark) { g_core_calls++; g_core_in = in; g_core_end = *end; g_core_adapted = 0; struct UtfEncodingResult_pkc16 r;
  g_core_code = nondet_int(); g_core_cnt = nondet_size_t(); g_core_adv = nondet_size_t(); __CPROVER_assume(g_core_adv <= (size_t)(*end - in)); r.ErrorCode = g_core_code; r.Iterator = in + g_core_adv; r.InvalidSequencesCount = g_core_cnt; return r; }
/* core encoders: append k units (arbitrary values; the witness unit's value is remembered) within the string's capacity */
static size_t g_w; static unsigned long g_app_w; static _Bool g_w_appended; static size_t g_cap;
#define CORE_ENC(NAME, OUT, CH) \
struct UtfEncodingResult_pkc8 NAME(const char* in, const char* const* end, OUT* out, int policy, const CH* mark) { g_core_calls++; g_core_in = in; g_core_end = *end; struct UtfEncodingResult_pkc8 r; \
  size_t k = nondet_size_t(); __CPROVER_assume(k <= g_cap - out->size); if (g_w >= out->size && g_w < out->size + k) { CH v = (CH)nondet_ulong(); out->data[g_w] = v; g_app_w = v; g_w_appended = 1; } out->size += k; \
  g_core_code = nondet_int(); g_core_cnt = nondet_size_t(); g_core_adv = nondet_size_t(); __CPROVER_assume(g_core_adv <= (size_t)(*end - in)); r.ErrorCode = g_core_code; r.Iterator = in + g_core_adv; r.InvalidSequencesCount = g_core_cnt; return r; }
CORE_ENC(Utf16_Encode_pkc8_c16_valloc_c16__pkc8_rkpkc8_rvstr_c16_UtfEncodingErrorPolicy_pkc16, vstr_c16, uint16_t)
CORE_ENC(Utf32_Encode_pkc8_c32_valloc_c32__pkc8_rkpkc8_rvstr_c32_UtfEncodingErrorPolicy_pkc32, vstr_c32, uint32_t)
static inline uint16_t swap16(uint16_t v) { return (uint16_t)((v >> 8) | (v << 8)); }
static inline uint32_t swap32(uint32_t v) { return (v >> 24) | ((v >> 8) & 0xFF00u) | ((v << 8) & 0xFF0000u) | (v << 24); }
/* range reversal: every unit before the cursor is swapped, every unit from the cursor on is still original (witness unit g_w) */
static void* g_rev_base;
#define REV_LOOP(CH, SWAP) \
  __CPROVER_assigns(it.p, __CPROVER_object_whole(g_rev_base)) \
  __CPROVER_loop_invariant(__CPROVER_same_object(it.p, end->p) && PO(it.p) <= PO(end->p) && PO(it.p) >= PO(in->p) && (PO(it.p) - PO(in->p)) % sizeof(CH) == 0 && \
     ((PO((CH*)g_rev_base + g_w) >= PO(in->p) && PO((CH*)g_rev_base + g_w) < PO(end->p)) || ((CH*)g_rev_base)[g_w] == __CPROVER_loop_entry(((CH*)g_rev_base)[g_w])) && \
     (!(PO((CH*)g_rev_base + g_w) >= PO(in->p) && PO((CH*)g_rev_base + g_w) < PO(end->p)) || ((CH*)g_rev_base)[g_w] == (PO((CH*)g_rev_base + g_w) < PO(it.p) ? SWAP(__CPROVER_loop_entry(((CH*)g_rev_base)[g_w])) : __CPROVER_loop_entry(((CH*)g_rev_base)[g_w])))) \
  __CPROVER_decreases(PO(end->p) - PO(it.p))
#define SWAP16X(v) ((uint16_t)(((uint16_t)(v) >> 8) | ((uint16_t)(v) << 8)))
#define SWAP32X(v) ((((uint32_t)(v)) >> 24) | ((((uint32_t)(v)) >> 8) & 0xFF00u) | ((((uint32_t)(v)) << 8) & 0xFF0000u) | (((uint32_t)(v)) << 24))
#define VERIF_LOOP_Memory_Reverse_vit_pc16_vstr_c16_0__rkvit_pc16_vstr_c16_rkvit_pc16_vstr_c16_1 REV_LOOP(uint16_t, SWAP16X)
#define VERIF_LOOP_Memory_Reverse_vit_pc32_vstr_c32_0__rkvit_pc32_vstr_c32_rkvit_pc32_vstr_c32_1 REV_LOOP(uint32_t, SWAP32X)
#include "gen.c"
static void ginit(void) { __verif_exc = 0; g_core_calls = 0; g_w_appended = 0; }
void h_scalar(void) { uint16_t a = nondet_ushort(); uint32_t b = nondet_uint();
  VERIF_ASSERT("C11,C06", Memory_Reverse_c16_0__c16(a) == swap16(a) && Memory_Reverse_c32_0__c32(b) == swap32(b), "Memory::Reverse is the exact reversal of the bytes of a 16- and a 32-bit unit");
  VERIF_CANARY(); }
void h_adapter(void) { uint16_t u16[2]; u16[0] = nondet_ushort(); u16[1] = nondet_ushort(); uint32_t u32[1]; u32[0] = nondet_uint(); ginit();
  VERIF_ASSERT("C11,C13", verif_inst_adapter_deref16__pkc16(u16) == swap16(u16[0]) && verif_inst_adapter_deref32__pkc32(u32) == swap32(u32[0]), "the iterator adapter delivers the byte-swapped unit at its base position");
  VERIF_ASSERT("C11,C13", verif_inst_adapter_next16__pkc16(u16) == u16 + 1 && verif_inst_adapter_eq16__pkc16_pkc16(u16, u16) && !verif_inst_adapter_eq16__pkc16_pkc16(u16, u16 + 1), "the adapter advances and compares exactly like its base pointer and converts back to it");
  VERIF_ASSERT("C11,C13", verif_inst_adapter_native16__pkc16(u16) == u16, "for the native byte order no adapter is interposed");
  VERIF_CANARY(); }
#define H_DEC(NAME, FN, CH, OUT, ADAPTED) \
void h_dec_##NAME(void) { size_t n = nondet_size_t(); __CPROVER_assume(n <= 4096); CH* buf = malloc((n ? n : 1) * sizeof(CH)); __CPROVER_assume(buf != 0); OUT out; ginit(); \
  int pol = nondet_int(); \
  __typeof__(FN(buf, buf + n, &out, pol, 0)) r = FN(buf, buf + n, &out, pol, 0); \
  VERIF_ASSERT("C11,C13", g_core_calls == 1 && g_core_in == buf && g_core_end == buf + n && g_core_adapted == ADAPTED, "the wrapper applies the core decoder to exactly [in,end), through the byte-swapping adapter iff the encoding's byte order is not the native one"); \
  VERIF_ASSERT("C11,C12,C13", r.ErrorCode == g_core_code && r.InvalidSequencesCount == g_core_cnt && r.Iterator == buf + g_core_adv, "error code, error count and the position where decoding stopped are handed back unchanged (as a position in the caller's buffer)"); \
  VERIF_CANARY(); }
H_DEC(u16be_u32, verif_inst_u16be_to_u32__pkc16_pkc16_rvstr_c32_UtfEncodingErrorPolicy_pkc32, uint16_t, vstr_c32, 1)
H_DEC(u16be_u8, verif_inst_u16be_to_u8__pkc16_pkc16_rvstr_c8_UtfEncodingErrorPolicy_pkc8, uint16_t, vstr_c8, 1)
H_DEC(u32be_u8, verif_inst_u32be_to_u8__pkc32_pkc32_rvstr_c8_UtfEncodingErrorPolicy_pkc8, uint32_t, vstr_c8, 1)
H_DEC(u16le_u8, verif_inst_u16le_to_u8__pkc16_pkc16_rvstr_c8_UtfEncodingErrorPolicy_pkc8, uint16_t, vstr_c8, 0)
#define H_ENC(NAME, FN, CH, OUT, SWAP) \
void h_enc_##NAME(void) { size_t cap = nondet_size_t(); __CPROVER_assume(cap >= 1 && cap <= ((size_t)1 << 40)); CH* data = malloc(cap * sizeof(CH)); __CPROVER_assume(data != 0); OUT out; out.data = data; out.size = nondet_size_t(); __CPROVER_assume(out.size <= cap); \
  size_t size0 = out.size; g_cap = cap; g_w = nondet_size_t(); __CPROVER_assume(g_w < cap); CH before_w = data[g_w]; g_rev_base = data; ginit(); char src[1]; \
  /* the loop contract's 'original value' of the witness unit is what the core encoder appended (or what was there before) */ \
  struct UtfEncodingResult_pkc8 r = FN(src, src + 1, &out, nondet_int(), 0); \
  VERIF_ASSERT("C11,C13", g_core_calls == 1 && r.ErrorCode == g_core_code && r.InvalidSequencesCount == g_core_cnt && r.Iterator == src + g_core_adv, "the wrapper calls the core encoder once and hands its result back unchanged"); \
  VERIF_ASSERT("C11,C13", g_w >= size0 || data[g_w] == before_w, "nothing that was in the string before the call is touched (arbitrary witness unit)"); \
  VERIF_ASSERT("C11,C13", !(g_w >= size0 && g_w < out.size) || (g_w_appended && data[g_w] == SWAP((CH)g_app_w)), "every appended unit ends up byte-swapped exactly once (arbitrary witness unit)"); \
  VERIF_CANARY(); }
H_ENC(u8_u16be, verif_inst_u8_to_u16be__pkc8_pkc8_rvstr_c16_UtfEncodingErrorPolicy_pkc16, uint16_t, vstr_c16, swap16)
H_ENC(u8_u32be, verif_inst_u8_to_u32be__pkc8_pkc8_rvstr_c32_UtfEncodingErrorPolicy_pkc32, uint32_t, vstr_c32, swap32)
/*@jobs
job entry=h_scalar props=C11,C06,C02 mode=direct unwind=3
job entry=h_adapter props=C11,C13,C02 mode=direct unwind=3
for H in u16be_u32 u16be_u8 u32be_u8 u16le_u8:
  job entry=h_dec_{H} props=C11,C12,C13,C02 mode=direct unwind=3
for H in u8_u16be u8_u32be:
  job entry=h_enc_{H} props=C11,C13,C02 mode=direct loops=1 unwind=3
@*/
