// extraction TU: calendar arithmetic of To(time_point -> ISO string) and To(ISO string -> time_point) (convert_chrono.h:420-500).
// PrintIsoUtc / ParseIsoUtc (the text rendering/parsing of the date-time parts) are contract-only callees here.
#include "bitserializer/convert.h"
#include <chrono>
#include <string>
namespace verif_inst {
using namespace std::chrono;
typedef duration<long, std::ratio<86400>> days_t;
#define TP(TAG, D) \
  void tp2str_##TAG(long count, std::string& out) { BitSerializer::Convert::Detail::To(time_point<system_clock, D>(D(count)), out); } \
  long str2tp_##TAG(std::string_view in) { time_point<system_clock, D> tp; BitSerializer::Convert::Detail::To(in, tp); return tp.time_since_epoch().count(); }
TP(ns, nanoseconds) TP(us, microseconds) TP(ms, milliseconds) TP(s, seconds) TP(min, minutes) TP(h, hours) TP(d, days_t)
}
