// Bounded stand-in (NOT a proof) for the calendar rendering/parsing of convert_chrono.h: the REAL Convert::To functions are evaluated on every
// day of a stated range of years and compared with an independent day-by-day calendar (increment one day at a time applying the
// Gregorian leap rule), for every supported precision.  Also checks that the rendered text parses back to the identical time point.
#include "bitserializer/convert.h"
#include <chrono>
#include <cstdio>
#include <cstring>
#include <string>
#include <vector>
using namespace std::chrono; using namespace BitSerializer;
typedef duration<long, std::ratio<86400>> days_t;
struct Civil { long y; int m, d; };
static bool leap(long y) { long r4 = ((y % 4) + 4) % 4, r100 = ((y % 100) + 100) % 100, r400 = ((y % 400) + 400) % 400; return r4 == 0 && (r100 != 0 || r400 == 0); }
static int dim(long y, int m) { static const int t[] = {31, 28, 31, 30, 31, 30, 31, 31, 30, 31, 30, 31}; return m == 2 && leap(y) ? 29 : t[m - 1]; }
static void next(Civil& c) { if (++c.d > dim(c.y, c.m)) { c.d = 1; if (++c.m > 12) { c.m = 1; ++c.y; } } }
static void prev(Civil& c) { if (--c.d < 1) { if (--c.m < 1) { c.m = 12; --c.y; } c.d = dim(c.y, c.m); } }
static std::string expect(const Civil& c, int h, int mi, int s, const char* frac) {
  char buf[80]; long ay = c.y < 0 ? -c.y : c.y;
  snprintf(buf, sizeof buf, "%s%04ld-%02d-%02dT%02d:%02d:%02d%sZ", c.y < 0 ? "-" : (c.y > 9999 ? "+" : ""), ay, c.m, c.d, h, mi, s, frac); return buf; }
static long evals = 0, fails = 0; static const char* cur;
static void fail(const std::string& what) { if (fails++ < 5) printf("FAIL %s %s\n", cur, what.c_str()); }
template <class D> static void check(long dayNumber, const Civil& c, long secOfDay, long fracTicks, const char* fracText) {
  // tick count of the time point; skip when it does not fit
  __int128 ticksPerSec = (__int128)D::period::den / D::period::num; __int128 total;
  if (D::period::num == 1) total = ((__int128)dayNumber * 86400 + secOfDay) * ticksPerSec + fracTicks; else { if (secOfDay % D::period::num) return; total = ((__int128)dayNumber * 86400 + secOfDay) / D::period::num; }
  if (total > INT64_MAX || total < INT64_MIN) return;
  time_point<system_clock, D> tp{D((long)total)}; ++evals;
  std::string text; try { text = Convert::To<std::string>(tp); } catch (const std::exception& e) { fail(std::string("render raised ") + e.what() + " for day " + std::to_string(dayNumber)); return; }
  std::string exp = expect(c, (int)(secOfDay / 3600), (int)(secOfDay % 3600 / 60), (int)(secOfDay % 60), fracText);
  if (text != exp) { fail("day " + std::to_string(dayNumber) + " ticks " + std::to_string((long)total) + " rendered '" + text + "' expected '" + exp + "'"); return; }
  try { auto back = Convert::To<time_point<system_clock, D>>(text); if (back != tp) fail("'" + text + "' parsed back to " + std::to_string(back.time_since_epoch().count()) + " instead of " + std::to_string((long)total)); }
  catch (const std::exception& e) { fail("'" + text + "' does not parse back: " + e.what()); }
}
template <class D> static void sweep(const char* name, long yearsBack, long yearsFwd, const char* fracText, long fracTicks) {
  cur = name; evals = 0; fails = 0;
  Civil c{1970, 1, 1}; long day = 0;
  std::string zf = fracTicks ? std::string(".") + std::string(strlen(fracText) - 1, '0') : std::string(); const char* zero = zf.c_str();   /* sub-second precisions always print their fixed number of fraction digits */
  for (; c.y < 1970 + yearsFwd; next(c), ++day) { check<D>(day, c, 0, 0, zero); check<D>(day, c, 86399, 0, zero); if (fracTicks) check<D>(day, c, 45296, fracTicks, fracText); }
  c = Civil{1970, 1, 1}; day = 0;
  for (prev(c), --day; c.y > 1970 - yearsBack; prev(c), --day) { check<D>(day, c, 0, 0, zero); check<D>(day, c, 86399, 0, zero); if (fracTicks) check<D>(day, c, 45296, fracTicks, fracText); }
  printf("RESULT %s evaluations=%ld failures=%ld range=every day of years %ld..%ld, 2-3 times of day, render + parse back\n", name, evals, fails, 1970 - yearsBack, 1970 + yearsFwd);
}
// ---- sparse sweep over the WHOLE representable range (far years): independent closed-form calendar in __int128 ----
typedef __int128 mint;
static mint fdiv(mint a, mint b) { return a >= 0 ? a / b : -((-a + b - 1) / b); }
static bool leap128(mint y) { return y - 4 * fdiv(y, 4) == 0 && (y - 100 * fdiv(y, 100) != 0 || y - 400 * fdiv(y, 400) == 0); }
static mint days_before_year(mint y) { return 365 * y + fdiv(y + 3, 4) - fdiv(y + 99, 100) + fdiv(y + 399, 400) - 719528; }   /* days from 1970-01-01 to Y-01-01 */
static void civil_of_day(mint day, mint& y, int& m, int& d) {
  mint lo = fdiv(day * 400, 146097) + 1970 - 2, hi = lo + 4; while (days_before_year(lo) > day) lo -= 1; while (days_before_year(hi) <= day) hi += 1;
  while (hi - lo > 1) { mint mid = lo + (hi - lo) / 2; if (days_before_year(mid) <= day) lo = mid; else hi = mid; } y = lo;
  mint rest = day - days_before_year(y); static const int t[] = {31, 28, 31, 30, 31, 30, 31, 31, 30, 31, 30, 31}; m = 1;
  for (int i = 0; i < 12; i++) { int dm = t[i] + (i == 1 && leap128(y) ? 1 : 0); if (rest < dm) { m = i + 1; break; } rest -= dm; } d = (int)rest + 1; }
static std::string year_text(mint y) { bool neg = y < 0; unsigned long long a = (unsigned long long)(neg ? -y : y); char b[40]; snprintf(b, sizeof b, "%s%04llu", neg ? "-" : (y > 9999 ? "+" : ""), a); return b; }
template <class D> static void far_sweep(const char* name, long samples, bool only_lowest_day = false) {
  cur = name; evals = 0; fails = 0; const mint num = D::period::num, den = D::period::den;   /* tick = num/den seconds, den == 1 here */
  unsigned long long x = 0x9E3779B97F4A7C15ull;
  for (long i = 0; i < samples; i++) { x ^= x << 13; x ^= x >> 7; x ^= x << 17; long c = (long)x; if (i < 64) c = (i & 1) ? INT64_MAX - (i >> 1) : INT64_MIN + (i >> 1);
    mint secs = (mint)c * num / den; if ((mint)c * num % den) continue; mint day = fdiv(secs, 86400); long sod = (long)(secs - day * 86400); mint y; int m, d; civil_of_day(day, y, m, d);
    char tail[32]; snprintf(tail, sizeof tail, "-%02d-%02dT%02d:%02d:%02dZ", m, d, (int)(sod / 3600), (int)(sod % 3600 / 60), (int)(sod % 60)); std::string exp = year_text(y) + tail;
    /* the lowest representable day: days*86400 alone is below INT64_MIN, the parser refuses these representable instants (known finding KF-C15-lowest-day-parse, checked by the far_kf_* entries) */
    bool lowest_day = (day * 86400) * den < (mint)INT64_MIN * num; if (lowest_day != only_lowest_day) continue;
    time_point<system_clock, D> tp{D(c)}; ++evals; std::string text;
    /* day counts within 719468 of the maximum cannot be shifted to the algorithm's epoch: reported, not rendered */
    bool too_far = day > (mint)INT64_MAX - 719468;
    try { text = Convert::To<std::string>(tp); if (too_far) { fail("count " + std::to_string(c) + " rendered '" + text + "' although its day number cannot be shifted to the calendar epoch"); continue; } }
    catch (const std::out_of_range& e) { if (!too_far) fail(std::string("render raised ") + e.what() + " for count " + std::to_string(c)); continue; }
    catch (const std::exception& e) { fail(std::string("render raised ") + e.what() + " for count " + std::to_string(c)); continue; }
    if (text != exp) { fail("count " + std::to_string(c) + " rendered '" + text + "' expected '" + exp + "'"); continue; }
    try { auto back = Convert::To<time_point<system_clock, D>>(text); if (back != tp) fail("'" + text + "' parsed back to " + std::to_string(back.time_since_epoch().count()) + " instead of " + std::to_string(c)); }
    catch (const std::exception& e) { fail("'" + text + "' does not parse back: " + e.what()); } }
  printf("RESULT %s evaluations=%ld failures=%ld range=%ld pseudo-random instants over the whole int64 range + the 64 extreme counts, render + parse back, against a closed-form __int128 calendar\n", name, evals, fails, samples);
}
// ---- text -> time point over dates of EVERY year magnitude (also far outside the target's range): the instant in __int128 decides ----
template <class D> static void parse_far(const char* name, long samples) {
  cur = name; evals = 0; fails = 0; const mint num = D::period::num, den = D::period::den; unsigned long long x = 0xD1B54A32D192ED03ull; long accepted = 0, refused = 0;
  for (long i = 0; i < samples; i++) { x ^= x << 13; x ^= x >> 7; x ^= x << 17; long yr = (long)x >> (i % 64); unsigned long long r = x * 0x9E3779B97F4A7C15ull;
    if (i % 7 == 0) { mint span = (mint)INT64_MAX * num / den / 31556952; yr = (long)((i & 8 ? span : -span) + 1970 + (long)(r % 5) - 2); }   /* years around the edge of the target's range */
    int m = 1 + (int)(r % 12), d = 1 + (int)((r >> 8) % 28), h = (int)((r >> 16) % 24), mi = (int)((r >> 24) % 60), sc = (int)((r >> 32) % 60); if ((r >> 40) % 4 == 0) { h = mi = sc = 0; } if ((r >> 44) % 16 == 0 && leap128(yr)) { m = 2; d = 29; }
    mint day = days_before_year(yr); static const int t[] = {31, 28, 31, 30, 31, 30, 31, 31, 30, 31, 30, 31}; for (int k = 0; k < m - 1; k++) day += t[k] + (k == 1 && leap128(yr) ? 1 : 0); day += d - 1;
    mint secs = day * 86400 + h * 3600 + mi * 60 + sc; mint ticks_num = secs * den; bool exact = ticks_num % num == 0; mint ticks = exact ? ticks_num / num : 0;
    bool in_range = exact && ticks >= (mint)INT64_MIN && ticks <= (mint)INT64_MAX;
    /* the lowest representable day is refused although representable: known finding KF-C15-lowest-day-parse, checked by far_kf_* */
    if (in_range && (day * 86400) * den < (mint)INT64_MIN * num) continue;
    char tail[32]; snprintf(tail, sizeof tail, "-%02d-%02dT%02d:%02d:%02dZ", m, d, h, mi, sc); std::string text = year_text(yr) + tail; ++evals;
    try { auto tp = Convert::To<time_point<system_clock, D>>(text); ++accepted;
      if (!in_range) fail("'" + text + "' denotes an instant the target cannot represent but parsed to " + std::to_string(tp.time_since_epoch().count()) + " instead of raising");
      else if ((mint)tp.time_since_epoch().count() != ticks) fail("'" + text + "' parsed to " + std::to_string(tp.time_since_epoch().count()) + " instead of " + std::to_string((long)ticks)); }
    catch (const std::out_of_range& e) { ++refused; if (in_range) fail("'" + text + "' is representable (" + std::to_string((long)ticks) + ") but raised " + e.what()); }
    catch (const std::exception& e) { fail("'" + text + "' raised " + e.what()); } }
  printf("RESULT %s evaluations=%ld failures=%ld range=%ld pseudo-random valid date-times with years of every magnitude (1/7 at the edge of the target's range): accepted %ld exact, refused %ld with out_of_range, decided by a closed-form __int128 calendar\n", name, evals, fails, samples, accepted, refused);
}
int main(int argc, char** argv) {
  const char* which = argc > 1 ? argv[1] : ""; bool thorough = argc > 2 && !strcmp(argv[2], "thorough");
  long back = thorough ? 31970 : 12370, fwd = thorough ? 98030 : 18030;   // quick: -10400..+20000 ; thorough: -30000..+100000
  if (!strcmp(which, "cal_ns")) sweep<nanoseconds>("cal_ns", 290, 290, ".000000001", 1);            // the whole representable range of nanosecond time points
  else if (!strcmp(which, "cal_us")) sweep<microseconds>("cal_us", back, fwd, ".000001", 1);
  else if (!strcmp(which, "cal_ms")) sweep<milliseconds>("cal_ms", back, fwd, ".001", 1);
  else if (!strcmp(which, "cal_s")) sweep<seconds>("cal_s", back, fwd, "", 0);
  else if (!strcmp(which, "cal_min")) sweep<minutes>("cal_min", back, fwd, "", 0);
  else if (!strcmp(which, "cal_h")) sweep<hours>("cal_h", back, fwd, "", 0);
  else if (!strcmp(which, "cal_d")) sweep<days_t>("cal_d", back, fwd, "", 0);
  else if (!strcmp(which, "far_s")) far_sweep<seconds>("far_s", thorough ? 20000000 : 2000000);
  else if (!strcmp(which, "far_min")) far_sweep<minutes>("far_min", thorough ? 20000000 : 2000000);
  else if (!strcmp(which, "far_h")) far_sweep<hours>("far_h", thorough ? 20000000 : 2000000);
  else if (!strcmp(which, "far_d")) far_sweep<days_t>("far_d", thorough ? 20000000 : 2000000);
  else if (!strcmp(which, "far_kf_s")) far_sweep<seconds>("far_kf_s", 64, true);
  else if (!strcmp(which, "far_kf_min")) far_sweep<minutes>("far_kf_min", 64, true);
  else if (!strcmp(which, "far_kf_h")) far_sweep<hours>("far_kf_h", 64, true);
  else if (!strcmp(which, "parse_far_ns")) parse_far<nanoseconds>("parse_far_ns", thorough ? 20000000 : 2000000);
  else if (!strcmp(which, "parse_far_us")) parse_far<microseconds>("parse_far_us", thorough ? 20000000 : 2000000);
  else if (!strcmp(which, "parse_far_ms")) parse_far<milliseconds>("parse_far_ms", thorough ? 20000000 : 2000000);
  else if (!strcmp(which, "parse_far_s")) parse_far<seconds>("parse_far_s", thorough ? 20000000 : 2000000);
  else if (!strcmp(which, "parse_far_min")) parse_far<minutes>("parse_far_min", thorough ? 20000000 : 2000000);
  else if (!strcmp(which, "parse_far_h")) parse_far<hours>("parse_far_h", thorough ? 20000000 : 2000000);
  else if (!strcmp(which, "parse_far_d")) parse_far<days_t>("parse_far_d", thorough ? 20000000 : 2000000);
  else { puts("unknown job"); return 2; }
  return 0;
}
