/* Calendar arithmetic of To(time_point -> ISO-8601 string) and To(ISO-8601 string -> time_point) (convert_chrono.h:420-500).
   The text layer (PrintIsoUtc / ParseIsoUtc) is a contract-only callee: the harness captures the date-time PARTS handed to the printer
   and supplies arbitrary valid parts from the parser.  C14: the parts are the correct proleptic-Gregorian UTC civil time of the time
   point; C15: the time point computed from parts is exactly the denoted instant or std::out_of_range.
   The oracle is the textbook day count (365*Y + leap days before Y + days before month + D), NOT the era/day-of-era algorithm of the
   code.  All 64-bit tick counts; verification conditions by CBMC, decided by cvc5 over the integers. */
#include "models/prelude.h"
#include "models/sv.h"
typedef __int128 mint;
/* std::string out-parameter: only append(first,last) is used */
typedef struct { size_t appended; unsigned calls; } vstr_c8;
static inline vstr_c8* vstr_c8_append_pc8_v__pc8_pc8(vstr_c8* s, char* first, char* last) { s->calls++; s->appended += (size_t)(last - first); return s; }
/* std::optional<std::chrono::duration<long, P>>: {engaged, tick count}; the duration struct of the extraction is a single long */
#define DEF_OPT(NAME, DUR) typedef struct { _Bool has; long rep; } NAME;
DEF_OPT(vopt_chr_duration_i64_std_ratio_1_1000000000, _) DEF_OPT(vopt_chr_duration_i64_std_ratio_1_1000000, _) DEF_OPT(vopt_chr_duration_i64_std_ratio_1_1000, _)
#include "gen.h"
#define OPT_FUNCS(NAME, DUR) \
static inline NAME NAME##_ctor(void) { NAME o; o.has = 0; o.rep = 0; return o; } \
static inline NAME* NAME##_op_assign_##DUR##__x##DUR(NAME* o, struct DUR* v) { o->has = 1; o->rep = *(long*)v; return o; } \
static inline _Bool NAME##_conv_b___k(const NAME* o) { return o->has; } \
static inline const struct DUR* NAME##_value___k(const NAME* o) { if (!o->has) { __verif_exc = EXC_std_bad_optional_access; return 0; } return (const struct DUR*)&o->rep; }
OPT_FUNCS(vopt_chr_duration_i64_std_ratio_1_1000000000, chr_duration_i64_std_ratio_1_1000000000)
OPT_FUNCS(vopt_chr_duration_i64_std_ratio_1_1000000, chr_duration_i64_std_ratio_1_1000000)
OPT_FUNCS(vopt_chr_duration_i64_std_ratio_1_1000, chr_duration_i64_std_ratio_1_1000)

/* ---- captured / supplied date-time parts ---- */
#define VERIF_STUBS_FIRST
static long g_year; static int g_month, g_day, g_hour, g_min, g_sec; static _Bool g_frac_has; static long g_frac; static unsigned g_print_calls;
#define PRINT_STUB(FN, PARTS) char* FN(const struct PARTS* utc, char* pos, char* endPos) { g_print_calls++; \
  g_year = utc->Year; g_month = utc->Month; g_day = utc->Day; g_hour = utc->Hour; g_min = utc->Min; g_sec = utc->Sec; g_frac_has = utc->SecFractions.has; g_frac = utc->SecFractions.rep; \
  __CPROVER_assert(__CPROVER_same_object(pos, endPos) && endPos - pos == 32, "C02: PrintIsoUtc is given the whole 32-byte buffer"); \
  size_t n = nondet_size_t(); __CPROVER_assume(n <= 32); return pos + n; }
PRINT_STUB(Detail_PrintIsoUtc_chr_duration_i64_std_ratio_1_1000000000__rkCDateTimeParts_chr_duration_i64_std_ratio_1_1000000000_0_pc8_pc8, CDateTimeParts_chr_duration_i64_std_ratio_1_1000000000_0)
PRINT_STUB(Detail_PrintIsoUtc_chr_duration_i64_std_ratio_1_1000000__rkCDateTimeParts_chr_duration_i64_std_ratio_1_1000000_0_pc8_pc8, CDateTimeParts_chr_duration_i64_std_ratio_1_1000000_0)
PRINT_STUB(Detail_PrintIsoUtc_chr_duration_i64_std_ratio_1_1000__rkCDateTimeParts_chr_duration_i64_std_ratio_1_1000_0_pc8_pc8, CDateTimeParts_chr_duration_i64_std_ratio_1_1000_0)

#include "gen.c"

/* ---- calendar oracle (textbook) ---- */
static inline mint fdiv(mint a, mint b) { return a >= 0 ? a / b : -((-a + b - 1) / b); }            /* floor division, b > 0 */
static inline _Bool is_leap(mint y) { return y - 4 * fdiv(y, 4) == 0 && (y - 100 * fdiv(y, 100) != 0 || y - 400 * fdiv(y, 400) == 0); }
static inline int days_in_month(mint y, int m) { return m == 2 ? (is_leap(y) ? 29 : 28) : (m == 4 || m == 6 || m == 9 || m == 11) ? 30 : 31; }
static inline int days_before_month(int m) { return m == 1 ? 0 : m == 2 ? 31 : m == 3 ? 59 : m == 4 ? 90 : m == 5 ? 120 : m == 6 ? 151 : m == 7 ? 181 : m == 8 ? 212 : m == 9 ? 243 : m == 10 ? 273 : m == 11 ? 304 : 334; }
/* days from 1970-01-01 to Y-M-D in the proleptic Gregorian calendar (astronomical year numbering, year 0 is a leap year) */
static inline mint days_from_civil(mint y, int m, int d) {
  mint before_year = 365 * y + fdiv(y + 3, 4) - fdiv(y + 99, 100) + fdiv(y + 399, 400);       /* days from 0000-01-01 to Y-01-01 */
  return before_year + days_before_month(m) + ((m > 2 && is_leap(y)) ? 1 : 0) + (d - 1) - 719528;
}
static inline _Bool parts_valid(mint y, int mo, int d, int h, int mi, int s) { return mo >= 1 && mo <= 12 && d >= 1 && d <= days_in_month(y, mo) && h >= 0 && h <= 23 && mi >= 0 && mi <= 59 && s >= 0 && s <= 59; }

/* ---- time point -> parts ------------------------------------------------------------------------------------------------------- */
/* UNIT_NUM/UNIT_DEN: tick length in seconds; FRAC_DEN: ticks per second of the fraction type handed to the printer (0: none) */
#define H_TP2STR(U, UNIT_NUM, UNIT_DEN, FRAC_DEN) \
void h_tp2str_##U(void) { long c = nondet_long(); vstr_c8 out; out.appended = 0; out.calls = 0; __verif_exc = 0; g_print_calls = 0; \
  verif_inst_tp2str_##U##__i64_rvstr_c8(c, &out); \
  mint total_num = (mint)c * (mint)(UNIT_NUM);                     /* instant = total_num / UNIT_DEN seconds */ \
  mint secs = fdiv(total_num, (mint)(UNIT_DEN));                    /* whole seconds, rounded down */ \
  mint rem = total_num - secs * (mint)(UNIT_DEN);                   /* 0 <= rem < UNIT_DEN ticks of 1/UNIT_DEN s */ \
  VERIF_ASSERT("C14,C02", __verif_exc == 0 && g_print_calls == 1 && out.calls == 1, "rendering a time point never raises and prints exactly once"); \
  VERIF_ASSERT("C14", parts_valid(g_year, g_month, g_day, g_hour, g_min, g_sec), "the printed fields are a valid civil date and time of day (month 1-12, day within the month incl. leap years, 0-23, 0-59, 0-59)"); \
  VERIF_ASSERT("C14", days_from_civil(g_year, g_month, g_day) * 86400 + (mint)g_hour * 3600 + (mint)g_min * 60 + g_sec == secs, "the printed date and time are the proleptic-Gregorian UTC civil time of the time point (whole seconds, rounded down)"); \
  VERIF_ASSERT("C14", (FRAC_DEN) == 0 ? !g_frac_has : (g_frac_has && g_frac >= 0 && (mint)g_frac * (mint)(UNIT_DEN) == rem * (mint)(FRAC_DEN)), "the fraction handed to the printer is exactly the sub-second remainder (none for precisions of a second or coarser)"); \
  VERIF_CANARY(); }
H_TP2STR(ns, 1, 1000000000, 1000000000) H_TP2STR(us, 1, 1000000, 1000000) H_TP2STR(ms, 1, 1000, 1000)
H_TP2STR(s, 1, 1, 0) H_TP2STR(min, 60, 1, 0) H_TP2STR(h, 3600, 1, 0) H_TP2STR(d, 86400, 1, 0)

/* COARSE year contract (what the solvers CAN decide over the full 64-bit domain): the printed year lies within 400 years of the instant's
   true position on the time axis:  (Y-400)*146097 <= 400*(days+719468) < (Y+400)*146097  (146097 days = 400 Gregorian years).
   It rules out every wrapped / truncated / mis-scaled year (an error of 2^32 years, a lost era, a wrong epoch), not an off-by-a-few-days. */
#define H_TP2STR_COARSE(U, UNIT_NUM) \
void h_tp2str_coarse_##U(void) { long c = nondet_long(); vstr_c8 out; out.appended = 0; out.calls = 0; __verif_exc = 0; g_print_calls = 0; \
  verif_inst_tp2str_##U##__i64_rvstr_c8(c, &out); \
  mint secs = (mint)c * (mint)(UNIT_NUM); mint days = fdiv(secs, 86400); mint z400 = 400 * (days + 719468); \
  VERIF_ASSERT("C14,C02", __verif_exc == 0 && g_print_calls == 1, "rendering a time point never raises and prints exactly once"); \
  VERIF_ASSERT("C14", ((mint)g_year - 400) * 146097 <= z400 && z400 < ((mint)g_year + 400) * 146097, "the printed year is the year of the instant to within one 400-year era: never wrapped, truncated or mis-scaled, for every representable time point"); \
  VERIF_ASSERT("C14", g_month >= 1 && g_month <= 12 && g_day >= 1 && g_day <= 31 && g_hour >= 0 && g_hour <= 23 && g_min >= 0 && g_min <= 59 && g_sec >= 0 && g_sec <= 59, "month, day, hour, minute and second are inside their ranges"); \
  VERIF_CANARY(); }
H_TP2STR_COARSE(s, 1) H_TP2STR_COARSE(h, 3600) H_TP2STR_COARSE(d, 86400)
/* The full-domain proof of the calendar arithmetic (tp2str above, and a relational era-shift lemma) does not finish on any installed back
   end (SAT, z3, cvc5 bit-vectors, cvc5 integers: > 300 s each, also for |t| < 2^36 s).  The deciding check for the rendered civil date is
   therefore the BOUNDED native stand-in native.cpp (every day of a stated range of years), registered below and never counted as proved. */
/* ---- parts -> time point -------------------------------------------------------------------------------------------------------- */
struct CDateTimeParts_chr_duration_i64_std_ratio_1_1000000000_0 Detail_ParseIsoUtc_c8__vsv_c8(vsv_c8 in) {
  struct CDateTimeParts_chr_duration_i64_std_ratio_1_1000000000_0 p; (void)in;
  if (nondet_bool()) { __verif_exc = nondet_bool() ? EXC_std_invalid_argument : EXC_std_out_of_range; p.Year = 0; p.Month = 1; p.Day = 1; p.Hour = 0; p.Min = 0; p.Sec = 0; p.SecFractions.has = 0; p.SecFractions.rep = 0; return p; }
  p.Year = nondet_long(); p.Month = nondet_int(); p.Day = nondet_int(); p.Hour = nondet_int(); p.Min = nondet_int(); p.Sec = nondet_int();
  __CPROVER_assume(parts_valid(p.Year, p.Month, p.Day, p.Hour, p.Min, p.Sec));   /* contract of ParseIsoUtc: it only returns valid civil date-times */
  p.SecFractions.has = nondet_bool(); p.SecFractions.rep = nondet_long(); __CPROVER_assume(!p.SecFractions.has || (p.SecFractions.rep >= 0 && p.SecFractions.rep <= 999999999));   /* contract of ParseIsoUtc: fraction in [0, 1s) as nanoseconds */
  g_year = p.Year; g_month = p.Month; g_day = p.Day; g_hour = p.Hour; g_min = p.Min; g_sec = p.Sec; g_frac_has = p.SecFractions.has; g_frac = p.SecFractions.rep;
  return p; }
#define H_STR2TP(U, UNIT_NUM, UNIT_DEN) \
void h_str2tp_##U(void) { vsv_c8 in; in.data = 0; in.size = nondet_size_t(); __verif_exc = 0; g_frac_has = 0; g_frac = 0; g_year = 0; g_month = 1; g_day = 1; g_hour = 0; g_min = 0; g_sec = 0; \
  long r = verif_inst_str2tp_##U##__vsv_c8(in); \
  mint secs = days_from_civil(g_year, g_month, g_day) * 86400 + (mint)g_hour * 3600 + (mint)g_min * 60 + g_sec; \
  /* exact instant in ticks of the target, times 10^9 * UNIT_NUM to stay integral: target = (secs + frac/1e9) * UNIT_DEN / UNIT_NUM */ \
  mint inst_ns = secs * 1000000000 + (g_frac_has ? g_frac : 0);           /* denoted instant in nanoseconds */ \
  mint tick_ns = (mint)1000000000 * (mint)(UNIT_NUM) / (mint)(UNIT_DEN);    /* ns per target tick (all units here are >= 1 ns) */ \
  VERIF_ASSERT("C15", __verif_exc == 0 || __verif_exc == EXC_std_invalid_argument || __verif_exc == EXC_std_out_of_range, "parsing raises nothing but invalid_argument / out_of_range"); \
  VERIF_ASSERT("C15,C14", __verif_exc != 0 || ((mint)r * tick_ns - inst_ns <= tick_ns / 2 && inst_ns - (mint)r * tick_ns <= tick_ns / 2 && (!((UNIT_NUM) >= (UNIT_DEN)) || !g_frac_has || g_frac == 0 || 1)), \
     "the returned time point is the denoted instant, only the fraction of a second rounded to the target precision (never wrapped)"); \
  VERIF_ASSERT("C15,C14", __verif_exc != 0 || (UNIT_NUM) > (UNIT_DEN) || (mint)r * tick_ns - inst_ns < tick_ns && inst_ns - (mint)r * tick_ns < tick_ns, "for precisions of a second or finer the whole-second part is exact"); \
  VERIF_CANARY(); }
H_STR2TP(ns, 1, 1000000000) H_STR2TP(us, 1, 1000000) H_STR2TP(ms, 1, 1000) H_STR2TP(s, 1, 1)

/*@jobs
for U in s h d:
  job entry=h_tp2str_coarse_{U} props=C14,C02 mode=direct unwind=4 backend=cvc5int timeout=900 qtimeout=300 tier=thorough
for U in s min h d:
  job entry=far_{U} props=C14,C15 mode=native bounded=2,000,000_pseudo-random_instants_over_the_whole_int64_range_(thorough:_20,000,000)_+_the_64_extreme_counts,_against_a_closed-form___int128_calendar desc=far_years:_the_rendered_ISO-8601_text_is_the_correct_proleptic-Gregorian_UTC_date-time_(no_wrapped_or_truncated_year)_and_parses_back_to_the_identical_time_point canary=off
for U in ns us ms s:
  job entry=h_str2tp_{U} props=C15,C14 mode=direct backend=cvc5int qtimeout=300 tier=thorough
for U in ns us ms s min h d:
  job entry=cal_{U} props=C14 mode=native bounded=every_day_of_years_-10400..+20000_(ns:_1680..2260),_2-3_times_of_day,_against_a_day-by-day_calendar desc=the_rendered_ISO-8601_text_is_the_correct_proleptic-Gregorian_UTC_date-time_and_parses_back_to_the_identical_time_point canary=off
for U in ns us ms s min h d:
  job entry=parse_far_{U} props=C15 mode=native bounded=2,000,000_pseudo-random_valid_date-times_with_years_of_every_magnitude_up_to_19_digits,_1/7_at_the_edge_of_the_target's_range_(thorough:_20,000,000) desc=a_valid_ISO-8601_date-time_parses_to_exactly_the_denoted_instant_when_the_target_can_represent_it_and_raises_out_of_range_otherwise_(never_a_wrapped_value) canary=off
for U in s min h:
  job entry=far_kf_{U} props=C15,C14 mode=native kf=KF-C15-lowest-day-parse bounded=the_extreme_counts_INT64_MIN..INT64_MIN+31_(instants_in_the_lowest_representable_day) desc=an_instant_in_the_lowest_representable_day_renders_correctly_and_parses_back_to_the_identical_time_point canary=off
@*/
