// extraction TU: ISO-8601 date-time text parsing (convert_chrono.h: ParseIsoUtc with its two lambdas, ParseSecondFractions).
// std::from_chars is a library function (contract-only model); Utf8::Encode is replaced by its contract (proved in utf_transcode).
#include "bitserializer/convert.h"
namespace verif_inst {
using namespace BitSerializer::Convert::Detail;
CDateTimeParts<> parse_iso_c8(std::string_view in) { return ParseIsoUtc(in); }
CDateTimeParts<> parse_iso_c16(std::u16string_view in) { return ParseIsoUtc(in); }
}
