/* ISO-8601 date-time text parsing: ParseIsoUtc<char> / ParseIsoUtc<char16_t> with both lambdas and ParseSecondFractions (convert_chrono.h:182-210,
   286-361).  The code is loop-free; the only loops are inside std::from_chars, which is a contract-only model per [charconv.from.chars]:
   it consumes the longest prefix of [first,last) that is a decimal literal (optional '-' for signed targets, then digits), reports
   invalid_argument if there is none, result_out_of_range if the value does not fit, else delivers the value.  The VALUE is uninterpreted
   (an arbitrary number the model remembers per call), the SEGMENTATION is constrained through assumptions on the symbolic input text
   (first consumed character, an arbitrary witness position and the last consumed character are digits; the character behind is not).
   C15 (text side): a text is accepted ONLY IF it is   [+|-]digits '-' digits '-' digits 'T' digits ':' digits ':' digits [(.|,) digits] 'Z'   and
   nothing else, with month 1..12, day 1..(days of that month in that year, leap rule), hour <= 23, minute <= 59, second <= 59; the parts
   returned are exactly the values from_chars delivered for those fields; every rejection is std::invalid_argument or std::out_of_range.
   Field WIDTHS are not constrained here (the parser accepts 2023-1-1T0:0:0Z and returns the value it denotes). */
#include "models/prelude.h"
#include "models/sv.h"
#include <stdlib.h>
typedef struct { const char* ptr; int ec; } std_from_chars_result;
typedef struct { char __e; } std_nullopt_t;
static const std_nullopt_t m_std_nullopt = {0};
typedef struct { _Bool has; int v; } vopt_i32;
static inline vopt_i32 vopt_i32_ctor__std_nullopt_t(std_nullopt_t n) { (void)n; vopt_i32 o; o.has = 0; o.v = 0; return o; }
static inline vopt_i32 vopt_i32_ctor_i32_1__xi32(int* v) { vopt_i32 o; o.has = 1; o.v = *v; return o; }
static inline vopt_i32 vopt_i32_ctor_rki32_1__rki32(const int* v) { vopt_i32 o; o.has = 1; o.v = *v; return o; }
static inline _Bool vopt_i32_conv_b___k(const vopt_i32* o) { return o->has; }
/* [optional.comp.with.t]: v < opt  is  opt ? v < *opt : false;   v > opt  is  opt ? v > *opt : true */
static inline _Bool m_std_operator_op_lt_i32_i32__rki32_rkvopt_i32(const int* v, const vopt_i32* o) { return o->has ? *v < o->v : 0; }
static inline _Bool m_std_operator_op_gt_i32_i32__rki32_rkvopt_i32(const int* v, const vopt_i32* o) { return o->has ? *v > o->v : 1; }
static inline _Bool m_std_operator_op_lt_i32_i64__rki64_rkvopt_i32(const long* v, const vopt_i32* o) { return o->has ? *v < o->v : 0; }
static inline _Bool m_std_operator_op_gt_i32_i64__rki64_rkvopt_i32(const long* v, const vopt_i32* o) { return o->has ? *v > o->v : 1; }
static inline int m_isdigit(int c) { __CPROVER_assert(c >= -1 && c <= 255, "MODEL: std::isdigit is called with a value representable as unsigned char or EOF (undefined behaviour otherwise, C 7.4p1)"); return c >= '0' && c <= '9'; }
typedef struct { char* data; size_t size; } vstr_c8;
static inline vstr_c8 vstr_c8_ctor(void) { vstr_c8 s; s.data = 0; s.size = 0; return s; }
static inline char* vstr_c8_data(vstr_c8* s) { return s->data; }
static inline size_t vstr_c8_size___k(const vstr_c8* s) { return s->size; }
/* further std::string operations a rewrite of the transcoding step may use (the text then does not come from Utf8::Encode and the contract fails) */
static inline void vstr_c8_reserve__u64(vstr_c8* s, unsigned long n) { if (s->data == 0) { s->data = malloc(n == 0 ? 1 : n); __CPROVER_assume(s->data != 0); } }
static inline void vstr_c8_push_back__c8(vstr_c8* s, char c) { if (s->data != 0 && __CPROVER_OBJECT_SIZE(s->data) > s->size) s->data[s->size] = c; s->size++; }
static inline void vstr_c8_resize__u64(vstr_c8* s, unsigned long n) { vstr_c8_reserve__u64(s, n); s->size = n; }
static inline char* vstr_c8_op_index__u64(vstr_c8* s, unsigned long i) { return &s->data[i]; }
static inline vstr_c8* vstr_c8_op_addassign__c8(vstr_c8* s, char c) { vstr_c8_push_back__c8(s, c); return s; }
typedef struct { _Bool has; long rep; } vopt_chr_duration_i64_std_ratio_1_1000000000;
#include "gen.h"
static inline vopt_chr_duration_i64_std_ratio_1_1000000000 vopt_chr_duration_i64_std_ratio_1_1000000000_ctor(void) { vopt_chr_duration_i64_std_ratio_1_1000000000 o; o.has = 0; o.rep = 0; return o; }
static inline vopt_chr_duration_i64_std_ratio_1_1000000000* vopt_chr_duration_i64_std_ratio_1_1000000000_op_assign_rchr_duration_i64_std_ratio_1_1000000000__rchr_duration_i64_std_ratio_1_1000000000(vopt_chr_duration_i64_std_ratio_1_1000000000* o, struct chr_duration_i64_std_ratio_1_1000000000* d) { o->has = 1; o->rep = d->__r; return o; }

/* ---- the input text and the from_chars model ---- */
static const char* g_txt; static size_t g_n;                       /* the text the parser works on (the input, or its UTF-8 transcoding) */
#define MAXSEG 8
static unsigned g_calls; static size_t g_start[MAXSEG], g_len[MAXSEG]; static int g_ec[MAXSEG]; static long g_val[MAXSEG]; static _Bool g_in_text = 1;
#define DIG(c) ((c) >= '0' && (c) <= '9')
#define PO(p) ((unsigned long)__CPROVER_POINTER_OFFSET(p))
static std_from_chars_result fc_model(const char* first, const char* last, _Bool is_signed, long lo, unsigned long hi, long* out) { std_from_chars_result r;
  __CPROVER_assert(__CPROVER_same_object(first, last) && PO(first) <= PO(last), "MODEL: from_chars requires a valid range [first,last)");
  if (!(__CPROVER_same_object(first, g_txt) && PO(last) == PO(g_txt) + g_n)) g_in_text = 0;
  size_t avail = (size_t)(PO(last) - PO(first)); unsigned k = g_calls < MAXSEG ? g_calls : MAXSEG - 1; g_calls++;
  size_t neg = (is_signed && avail >= 1 && first[0] == '-') ? 1 : 0;
  _Bool match = avail > neg && DIG(first[neg]);
  g_start[k] = (size_t)(PO(first) - PO(g_txt));
  if (!match) { g_len[k] = 0; g_ec[k] = 22; r.ec = 22; r.ptr = first; return r; }
  size_t len = nondet_size_t(); __CPROVER_assume(len > neg && len <= avail);
  size_t j = nondet_size_t(); __CPROVER_assume(!(j >= neg && j < len) || DIG(first[j]));          /* every consumed character behind the sign is a digit (arbitrary witness j) */
  __CPROVER_assume(DIG(first[len - 1]) && (len == avail || !DIG(first[len])));                    /* longest match */
  int ec = nondet_bool() ? 34 : 0; long v = nondet_long(); __CPROVER_assume(ec != 0 || (v >= lo && (v < 0 || (unsigned long)v <= hi) && (neg || v >= 0)));
  g_len[k] = len; g_ec[k] = ec; g_val[k] = v; r.ec = ec; r.ptr = first + len; if (ec == 0) *out = v; return r; }
static long g_y400;
std_from_chars_result m_std_from_chars_i64__pkc8_pkc8_ri64_i32(const char* f, const char* l, long* v, int base) { std_from_chars_result r = fc_model(f, l, 1, (-9223372036854775807L - 1), 9223372036854775807UL, v);
  if (r.ec == 0) { long q = nondet_long(); long m = nondet_long(); __CPROVER_assume(m >= 0 && m < 400 && q >= -23058430092136940L && q <= 23058430092136940L && (__int128)*v == (__int128)400 * q + m); g_y400 = m; } return r; }
std_from_chars_result m_std_from_chars_i32__pkc8_pkc8_ri32_i32(const char* f, const char* l, int* v, int base) { long t = *v; std_from_chars_result r = fc_model(f, l, 1, -2147483648L, 2147483647UL, &t); if (r.ec == 0) *v = (int)t; return r; }
std_from_chars_result m_std_from_chars_u32__pkc8_pkc8_ru32_i32(const char* f, const char* l, unsigned* v, int base) { long t = *v; std_from_chars_result r = fc_model(f, l, 0, 0, 4294967295UL, &t); if (r.ec == 0) *v = (unsigned)t; return r; }
/* Utf8::Encode contract: transcodes the whole range into the output string (the result text is symbolic) */
static unsigned g_enc_calls; static const void* g_enc_first; static const void* g_enc_last;
static void enc_model(const uint16_t* in, const uint16_t* const* end, vstr_c8* out) {
  g_enc_calls++; g_enc_first = in; g_enc_last = *end; size_t n = nondet_size_t(); __CPROVER_assume(n <= ((size_t)1 << 40)); char* p = malloc(n == 0 ? 1 : n); __CPROVER_assume(p != 0);
  out->data = p; out->size = n; g_txt = p; g_n = n; }
/* (a macro, so that the harness still compiles when the code under test stops calling Utf8::Encode; its result is not used by the parser) */
#define Utf8_Encode_pkc16_c8_valloc_c8__pkc16_rkpkc16_rvstr_c8_UtfEncodingErrorPolicy_pkc8(in, end, out, policy, mark) enc_model(in, end, out)
/* contract of ParseSecondFractions (checked exhaustively on the real body in target chrono_fractions): one unsigned literal; 1..9 digits (or zeros only)
   give a duration below one second, anything else nullptr */
const char* Detail_ParseSecondFractions_i64_std_ratio_1_1000000000__pkc8_pkc8_rchr_duration_i64_std_ratio_1_1000000000(const char* pos, const char* endPos, struct chr_duration_i64_std_ratio_1_1000000000* outTime) {
  unsigned v = 0; std_from_chars_result r = m_std_from_chars_u32__pkc8_pkc8_ru32_i32(pos, endPos, &v, 10); unsigned k = g_calls - 1;
  if (r.ec != 0) return 0; if (v != 0 && g_len[k] >= 10) return 0;
  long ns = nondet_long(); __CPROVER_assume(ns >= 0 && ns <= 999999999 && (v != 0 || ns == 0)); outTime->__r = ns; return r.ptr; }
#include "gen.c"

/* leap rule on the year's residue modulo 400, which the from_chars model keeps as a ghost (g_y400: year == 400*q + g_y400), so that no 64-bit division is needed */
static inline _Bool leap(long y) { (void)y; unsigned r = (unsigned)g_y400; return (r % 4 == 0 && r % 100 != 0) || r == 0; }
static inline int days_in_month(long y, int m) { return m == 2 ? (leap(y) ? 29 : 28) : ((m == 4 || m == 6 || m == 9 || m == 11) ? 30 : 31); }
#define RES struct CDateTimeParts_chr_duration_i64_std_ratio_1_1000000000_0
static void post(const RES* r) {
  const char* t = g_txt; size_t n = g_n;
  VERIF_ASSERT("C15,C20", __verif_exc == 0 || __verif_exc == EXC_std_invalid_argument || __verif_exc == EXC_std_out_of_range, "a rejected text raises std::invalid_argument or std::out_of_range, nothing else");
  if (__verif_exc != 0) return;
  VERIF_ASSERT("C15", g_in_text && (g_calls == 6 || g_calls == 7) && g_ec[0] == 0 && g_ec[1] == 0 && g_ec[2] == 0 && g_ec[3] == 0 && g_ec[4] == 0 && g_ec[5] == 0 && (g_calls == 6 || g_ec[6] == 0), "an accepted text has six numeric fields (seven with a fraction), each parsed inside the text and none out of range");
  size_t e0 = g_start[0] + g_len[0], e1 = g_start[1] + g_len[1], e2 = g_start[2] + g_len[2], e3 = g_start[3] + g_len[3], e4 = g_start[4] + g_len[4], e5 = g_start[5] + g_len[5];
  VERIF_ASSERT("C15", g_start[0] == 0 || (g_start[0] == 1 && t[0] == '+' && DIG(t[1])), "the year starts the text, optionally behind ONE sign ('+' must be followed by a digit, '-' belongs to the number)");
  VERIF_ASSERT("C15", e0 < n && t[e0] == '-' && g_start[1] == e0 + 1 && e1 < n && t[e1] == '-' && g_start[2] == e1 + 1 && e2 < n && t[e2] == 'T' && g_start[3] == e2 + 1 && e3 < n && t[e3] == ':' && g_start[4] == e3 + 1 && e4 < n && t[e4] == ':' && g_start[5] == e4 + 1,
     "the fields are separated by exactly '-', '-', 'T', ':', ':' with nothing in between");
  size_t after = e5; _Bool frac = e5 < n && (t[e5] == '.' || t[e5] == ',');
  VERIF_ASSERT("C15", frac == (g_calls == 7) && (!frac || (g_start[6] == e5 + 1 && g_len[6] >= 1 && (g_len[6] <= 9 || g_val[6] == 0))), "a fraction is present iff '.' or ',' follows the seconds; it has 1..9 digits (or is all zeros)");
  if (frac) after = g_start[6] + g_len[6];
  VERIF_ASSERT("C15", after < n && t[after] == 'Z', "the date-time ends with 'Z'");
  VERIF_ASSERT("C15", after + 1 == n, "nothing follows the 'Z': trailing text is outside the grammar and must be rejected");
  VERIF_ASSERT("C15", r->Year == g_val[0] && r->Month == g_val[1] && r->Day == g_val[2] && r->Hour == g_val[3] && r->Min == g_val[4] && r->Sec == g_val[5], "the parts returned are exactly the values of the six fields");
  VERIF_ASSERT("C15", r->Month >= 1 && r->Month <= 12 && r->Hour >= 0 && r->Hour <= 23 && r->Min >= 0 && r->Min <= 59 && r->Sec >= 0 && r->Sec <= 59, "month, hour, minute and second are inside their ranges");
  VERIF_ASSERT("C15", r->Day >= 1 && r->Day <= days_in_month(r->Year, r->Month), "the day exists in that month of that year (28/29 days in February by the Gregorian leap rule): a non-existent date is rejected, not normalised");
  VERIF_ASSERT("C15", r->SecFractions.has == frac && (!frac || (r->SecFractions.rep >= 0 && r->SecFractions.rep <= 999999999)), "the fraction is delivered iff present and is below one second");
}
#define MK_TEXT(CH) size_t n = nondet_size_t(); __CPROVER_assume(n <= ((size_t)1 << 40)); CH* data = malloc((n == 0 ? 1 : n) * sizeof(CH)); __CPROVER_assume(data != 0); \
  g_calls = 0; g_in_text = 1; g_enc_calls = 0; __verif_exc = 0; __verif_exc_code = 0; for (int i = 0; i < MAXSEG; i++) { g_start[i] = 0; g_len[i] = 0; g_ec[i] = 1; g_val[i] = 0; }
void h_parse_iso_c8(void) { MK_TEXT(char) vsv_c8 in; in.data = data; in.size = n; g_txt = data; g_n = n;
  RES r = verif_inst_parse_iso_c8__vsv_c8(in);
  post(&r); VERIF_CANARY(); }
void h_parse_iso_c16(void) { MK_TEXT(uint16_t) vsv_c16 in; in.data = data; in.size = n; g_txt = 0; g_n = 0;
  RES r = verif_inst_parse_iso_c16__vsv_c16(in);
  VERIF_ASSERT("C15,C16", g_enc_calls == 1 && g_enc_first == data && g_enc_last == data + n, "a 16-bit text is transcoded to UTF-8 as a whole (every code unit, so that non-ASCII characters cannot alias ASCII ones) and then parsed by the same grammar");
  post(&r); VERIF_CANARY(); }
/*@jobs
job entry=h_parse_iso_c8 props=C15,C20,C02 mode=direct unwind=10 noflags=--pointer-overflow-check timeout=1800
job entry=h_parse_iso_c16 props=C15,C16,C20,C02 mode=direct unwind=10 noflags=--pointer-overflow-check timeout=1800
@*/
