/* WriteEscapedValue (src/csv/csv_writers.cpp:11-45) - RFC 4180 quoting of one CSV field.
   Step contracts (proof, arbitrary iteration): loop 1 stops exactly at the first character that needs quoting per RFC 4180 (DQUOTE, the
   separator, LF, CR); loop 2 appends each character once, preceded by one extra DQUOTE iff it is a DQUOTE.
   Function level (proof, modular: steps replaced by their contracts, loop contracts close both loops for every length): an unquoted field is
   appended verbatim as one block and only if NO character needs quoting (checked for an arbitrary ghost position w); a quoted field is
   DQUOTE + verbatim prefix up to the first such character + one step per remaining character + DQUOTE.
   The fold from steps to 'the text an RFC 4180 parser reads back' is bounded-checked natively (target csv_bounded). */
#include "models/prelude.h"
#include "models/sv.h"
static const char* g_next2;   /* ghost: next position loop 2 has to visit (set when the verbatim prefix is appended) */
/* event-log model of std::string used append-only */
enum { EV_PUSH = 1, EV_BLOCK = 2 };
typedef struct { unsigned n; int kind[4]; const char* ptr[4]; size_t len[4]; char ch[4]; size_t pushes; size_t blocks; size_t total; } vstr_c8;
static inline void ev(vstr_c8* s, int kind, const char* p, size_t n, char c) { if (s->n < 4) { s->kind[s->n] = kind; s->ptr[s->n] = p; s->len[s->n] = n; s->ch[s->n] = c; } s->n++; if (kind == EV_PUSH) { s->pushes++; s->total += 1; } else { s->blocks++; s->total += n; } }
static inline void vstr_c8_push_back__c8(vstr_c8* s, char c) { ev(s, EV_PUSH, 0, 1, c); }
static inline vstr_c8* vstr_c8_append_vsv_c8__rkvsv_c8(vstr_c8* s, const vsv_c8* v) { ev(s, EV_BLOCK, v->data, v->size, 0); return s; }
static inline vstr_c8* vstr_c8_append_pkc8_v__pkc8_pkc8(vstr_c8* s, const char* first, const char* last) { __CPROVER_assert(__CPROVER_same_object(first, last) && first <= last, "MODEL: append(first,last) is given a valid range"); ev(s, EV_BLOCK, first, (size_t)(last - first), 0); g_next2 = last; return s; }
#include "gen.h"
#define F WriteEscapedValue__rkvsv_c8_rvstr_c8_kc8
#define CAT_(a, b) a##b
#define CAT(a, b) CAT_(a, b)
static inline _Bool rfc4180_needs_quote(char c, char sep) { return c == '"' || c == sep || c == '\n' || c == '\r'; }

#ifdef OUTER
/* ---- modular outer proof: the two step functions are replaced by their contracts ---- */
static const char* g_data; static size_t g_size; static size_t g_w; static _Bool g_special_w;   /* ghost: arbitrary witness position and whether its character needs quoting */
static unsigned long g_steps2;                                       /* ghost: loop-2 steps must visit consecutive positions */
int CAT(F, __loop1_body_stub)(struct CAT(F, __loop1_env)* e) { const char* p = *e->it; _Bool special = (size_t)(p - g_data) == g_w ? g_special_w : nondet_bool(); return special ? 1 : 0; }
int CAT(F, __loop2_body_stub)(struct CAT(F, __loop2_env)* e) { __CPROVER_assert(*e->it == g_next2, "C09: loop 2 visits every remaining character exactly once, in order"); g_next2 = *e->it + 1; g_steps2++; (*e->outputString)->total += 1; return 0; }
#define VERIF_STEP_WriteEscapedValue__rkvsv_c8_rvstr_c8_kc8__loop1(e) WriteEscapedValue__rkvsv_c8_rvstr_c8_kc8__loop1_body_stub(e)
#define VERIF_STEP_WriteEscapedValue__rkvsv_c8_rvstr_c8_kc8__loop2(e) WriteEscapedValue__rkvsv_c8_rvstr_c8_kc8__loop2_body_stub(e)
/* pointer invariants through offsets: relational operators on a havocked pointer would raise a spurious object-bounds check */
#define PO(p) ((unsigned long)__CPROVER_POINTER_OFFSET(p))
#define VERIF_LOOP_WriteEscapedValue__rkvsv_c8_rvstr_c8_kc8_1 \
  __CPROVER_assigns(it) \
  __CPROVER_loop_invariant(__CPROVER_same_object(it, endIt) && PO(it) <= PO(endIt) && PO(it) >= PO(g_data) && (PO(it) - PO(g_data) <= g_w || !g_special_w)) \
  __CPROVER_decreases(PO(endIt) - PO(it))
#define VERIF_LOOP_WriteEscapedValue__rkvsv_c8_rvstr_c8_kc8_2 \
  __CPROVER_assigns(it, g_steps2, g_next2, outputString->total) \
  __CPROVER_loop_invariant(__CPROVER_same_object(it, endIt) && PO(it) <= PO(endIt) && PO(it) >= PO(__CPROVER_loop_entry(it)) && g_next2 == it && g_steps2 == PO(it) - PO(__CPROVER_loop_entry(it))) \
  __CPROVER_decreases(PO(endIt) - PO(it))
#endif
#include "gen.c"

#ifndef OUTER
void h_step1(void) { char buf[1]; buf[0] = nondet_char(); char sep = nondet_char(); const char* it = buf; struct CAT(F, __loop1_env) e; e.separator = &sep; e.it = &it; __verif_exc = 0;
  int rc = CAT(F, __loop1_body)(&e);
  VERIF_ASSERT("C09", (rc == 1) == rfc4180_needs_quote(buf[0], sep) && (rc == 0 || rc == 1) && it == buf && __verif_exc == 0, "the scan stops exactly at a character that must be quoted per RFC 4180: DQUOTE, the separator, LF or CR");
  VERIF_CANARY(); }
void h_step2(void) { char buf[1]; buf[0] = nondet_char(); const char* it = buf; vstr_c8 out; out.n = 0; out.pushes = 0; out.blocks = 0; out.total = 0; vstr_c8* outp = &out; struct CAT(F, __loop2_env) e; e.outputString = &outp; e.it = &it; __verif_exc = 0;
  int rc = CAT(F, __loop2_body)(&e);
  VERIF_ASSERT("C09", rc == 0 && it == buf && __verif_exc == 0 && out.blocks == 0 && (buf[0] == '"' ? (out.n == 2 && out.ch[0] == '"' && out.ch[1] == '"') : (out.n == 1 && out.ch[0] == buf[0])), "each character is appended exactly once, preceded by one extra DQUOTE iff it is a DQUOTE");
  VERIF_CANARY(); }
#else
void h_outer(void) {
  size_t size = nondet_size_t(); __CPROVER_assume(size <= ((size_t)1 << 40)); char* data = malloc(size == 0 ? 1 : size); __CPROVER_assume(data != 0);
  vsv_c8 v; v.data = data; v.size = size; char sep = nondet_char(); vstr_c8 out; out.n = 0; out.pushes = 0; out.blocks = 0; out.total = 0;
  g_data = data; g_size = size; g_w = nondet_size_t(); g_special_w = nondet_bool(); g_steps2 = 0; g_next2 = 0; __verif_exc = 0;
  /* loop-2 stub expects to start at the position where loop 1 stopped: initialised by the hook below */
  F(&v, &out, sep);
  VERIF_ASSERT("C09,C02", __verif_exc == 0, "escaping never raises");
  _Bool unquoted = out.n == 1 && out.kind[0] == EV_BLOCK;
  VERIF_ASSERT("C09", !unquoted || (out.ptr[0] == data && out.len[0] == size && g_steps2 == 0 && !(g_w < size && g_special_w)), "a field is written unquoted only as one verbatim block and only if none of its characters needs quoting (arbitrary witness position)");
  VERIF_ASSERT("C09", unquoted || (out.n == 3 && out.kind[0] == EV_PUSH && out.ch[0] == '"' && out.kind[1] == EV_BLOCK && out.ptr[1] == data && out.len[1] <= size && out.kind[2] == EV_PUSH && out.ch[2] == '"' &&
      g_steps2 == size - out.len[1] && g_steps2 >= 1 && !(g_w < out.len[1] && g_special_w)), "a quoted field is DQUOTE, the verbatim prefix before the first character that needs quoting, one escaping step per remaining character, DQUOTE");
  VERIF_CANARY(); }
#endif
/*@jobs
job entry=h_step1 props=C09 mode=direct unwind=2
job entry=h_step2 props=C09 mode=direct unwind=2
job entry=h_outer props=C09,C02 mode=direct loops=1 unwind=2 defs=OUTER
@*/
