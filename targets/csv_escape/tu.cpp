// extraction TU: the real translation unit of the CSV writers (WriteEscapedValue and the writer methods)
#include "../../../repo/src/csv/csv_writers.cpp"
