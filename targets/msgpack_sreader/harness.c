/* Contracts + harnesses for the real CMsgPackStringReader (src/msgpack/msgpack_readers.cpp:205-810).
   Route R2: every method is loop-free once the recursive SkipValueImpl is replaced by its contract (stub below; the real
   SkipValueImpl is proved against that contract in target msgpack_skip).  The input document is an object of SYMBOLIC size with
   symbolic contents and a symbolic read position, so each proof covers every document, every position and every truncation point.
   Postconditions are phrased with the independent reference decoder spec/msgpack_spec.h. */
#include "models/prelude.h"
#include "models/sv.h"
#include <stdlib.h>
static inline vsv_c8* vsv_c8_op_assign__rkvsv_c8(vsv_c8* s, const vsv_c8* o) { *s = *o; return s; }
#include "gen.h"
#include "spec/msgpack_spec.h"
#include "spec/num_spec.h"

/* ---- contract of the abstract callee SkipValueImpl(string_view, size_t&) (proved for the real body in msgpack_skip) ------------ */
unsigned g_skip_calls; size_t g_skip_from;
void SkipValueImpl__vsv_c8_ru64(vsv_c8 inputData, unsigned long* pos) {
  g_skip_calls++; g_skip_from = *pos;
  if (nondet_bool()) { __verif_exc = EXC_ParsingException; return; }
  size_t np = nondet_size_t(); __CPROVER_assume(np > *pos && np <= inputData.size);   /* contract of SkipValueImpl: advances strictly, stays inside the document */
  *pos = np;
}
#include "gen.c"

/* The document has SYMBOLIC size (up to 2^62) and a symbolic read position pos.  Only the look-ahead window
   [pos, pos+min(WIN, size-pos)) is materialised as an object (of that symbolic, small size); the string_view's data pointer is
   the window shifted back by pos, so data[pos+k] is win[k].  Any access outside the window - before pos, beyond the end of the
   document, or more than WIN bytes ahead - is reported by CBMC as a failed pointer obligation, never silently allowed. */
#define WIN 32
struct doc { unsigned char wb[WIN]; unsigned char* win; size_t wlen; const unsigned char* data; size_t size; size_t pos; struct SerializationOptions opt; struct CMsgPackStringReader r; };
static void doc_init(struct doc* d) {
  d->size = nondet_size_t(); __CPROVER_assume(d->size <= ((size_t)1 << 54));   /* documents up to 2^54 bytes (CBMC pointer offsets have 56 bits) */
  d->pos = nondet_size_t(); __CPROVER_assume(d->pos <= d->size);
#ifdef VERIF_SMALL_CE
  __CPROVER_assume(d->size - d->pos <= 4096);   /* only while extracting a counterexample that the native replay can materialise */
#endif
  d->wlen = d->size - d->pos < WIN ? d->size - d->pos : WIN;
  d->win = malloc(d->wlen); __CPROVER_assume(d->win != 0);
  for (unsigned k = 0; k < WIN; k++) d->wb[k] = k < d->wlen ? d->win[k] : 0;   /* named copy of the window so that counterexamples show the bytes */
#pragma CPROVER check push
#pragma CPROVER check disable "pointer-overflow"
  d->data = d->win - d->pos;
#pragma CPROVER check pop
  d->opt.overflowNumberPolicy = nondet_bool() ? OverflowNumberPolicy_ThrowError : OverflowNumberPolicy_Skip;
  d->opt.mismatchedTypesPolicy = nondet_bool() ? MismatchedTypesPolicy_ThrowError : MismatchedTypesPolicy_Skip;
  d->r.mPos = d->pos; d->r.mInputData.data = (const char*)d->data; d->r.mInputData.size = d->size; d->r.mSerializationOptions = &d->opt;
  __verif_exc = 0; __verif_exc_code = 0; g_skip_calls = 0;
}
#define PRE struct doc d; doc_init(&d); mp_head h = mp_ref_head(d.wb, d.size - d.pos);

#define RD(x) CMsgPackStringReader_##x
#define CURPOS d.r.mPos
#define STR_DELIVERED(t) ((t).data == (const char*)d.win + h.head_len && (t).size == h.u)
#define PARSE_ERROR_KEEPS_POSITION (CURPOS == d.pos)
#include "spec/msgpack_reader_contract.h"
void h_position(void) { PRE size_t p = nondet_size_t();
  VERIF_ASSERT("C03", CMsgPackStringReader_GetPosition___k(&d.r) == d.pos && CMsgPackStringReader_IsEnd___k(&d.r) == (d.pos == d.size), "GetPosition/IsEnd report the read position");
  CMsgPackStringReader_SetPosition__u64(&d.r, p);
  VERIF_ASSERT("C03", p <= d.size ? (__verif_exc == 0 && d.r.mPos == p) : (__verif_exc == EXC_std_invalid_argument && d.r.mPos == d.pos), "SetPosition moves to any position inside the document, rejects positions beyond it");
  VERIF_CANARY(); }
void h_skip(void) { PRE CMsgPackStringReader_SkipValue(&d.r);
  VERIF_ASSERT("C05", g_skip_calls == 1 && g_skip_from == d.pos, "SkipValue skips exactly one value from the read position"); VERIF_CANARY(); }
void h_ctor(void) { struct doc d; doc_init(&d); struct CMsgPackStringReader r; r.mPos = nondet_size_t();
  CMsgPackStringReader_ctor__vsv_c8_rkSerializationOptions(&r, d.r.mInputData, &d.opt);
  VERIF_ASSERT("C07", __verif_exc == 0 && r.mPos == 0 && r.mInputData.data == d.r.mInputData.data && r.mInputData.size == d.size && r.mSerializationOptions == &d.opt, "a new reader starts at position 0 of the given document");
  VERIF_CANARY(); }

/*@jobs
for T in b u8 u16 u32 u64 c8 i8 i16 i32 i64:
  job entry=h_read_{T} props=C07,C04,C05,C20 mode=direct unwind=70
for T in nil f32 f64 str array map bin binbyte ts:
  job entry=h_read_{T} props=C07,C04,C05,C20 mode=direct unwind=70
job entry=h_kf_read_ts96 props=C07 mode=direct unwind=70 kf=KF-C07-ts96-order canary=off
job entry=h_kf_read_ts_nanos props=C07 mode=direct unwind=70 kf=KF-C07-ts-nanos-range canary=off
job entry=h_value_type props=C07,C20 mode=direct unwind=70
job entry=h_position props=C03 mode=direct unwind=70
job entry=h_skip props=C05 mode=direct unwind=70
job entry=h_ctor props=C07 mode=direct unwind=70
@*/
