// Native replay for msgpack_sreader: rebuilds the document from the counterexample's look-ahead window (the bytes before the read
// position are irrelevant to the reader and are filled with 0xC0), runs the REAL CMsgPackStringReader and compares the outcome with
// what the MessagePack reference decoder (spec/msgpack_spec.h) predicts.  Prints REPRODUCED on disagreement.
#include "../../../repo/src/msgpack/msgpack_readers.cpp"
#include "../../../repo/src/common/binary_stream_reader.cpp"
#include <cstdio>
#include <string>
#include "replay/replay_util.h"
extern "C" {
#include "spec/msgpack_spec.h"
}
using namespace BitSerializer; using namespace BitSerializer::MsgPack::Detail;
enum Outcome { Loaded, NotLoaded, ParseErr, MismatchErr, OverflowErr, OtherErr };
static const char* names[] = {"loaded", "not-loaded(skipped)", "ParsingException", "SerializationException(MismatchedTypes)", "SerializationException(Overflow)", "other exception"};
template <class F> static Outcome run(F f) {
  try { return f() ? Loaded : NotLoaded; }
  catch (const ParsingException&) { return ParseErr; }
  catch (const SerializationException& e) { if (e.GetErrorCode() == SerializationErrorCode::MismatchedTypes) return MismatchErr; if (e.GetErrorCode() == SerializationErrorCode::Overflow) return OverflowErr; if (e.GetErrorCode() == SerializationErrorCode::ParsingError) return ParseErr; return OtherErr; }
  catch (const std::exception&) { return OtherErr; }
}
int main(int argc, char** argv) {
  ReplayDoc D; if (argc < 2 || !D.load(argv[1])) { puts("cannot read replay file"); return 2; }
  uint64_t size = D.u64("d->size"), pos = D.u64("d->pos"); if (!D.has("d->size")) { size = D.u64("d.size"); pos = D.u64("d.pos"); }
  uint64_t remaining = size - pos; const uint64_t CAP = 1u << 22;
  uint64_t rem = remaining > CAP ? CAP : remaining;
  std::string doc(8, '\xC0'); size_t p0 = doc.size();
  for (uint64_t k = 0; k < rem; k++) { unsigned char b = 0; if (k < 32) { if (!D.elem("d.wb", k, b)) D.elem("d->wb", k, b); } doc.push_back((char)b); }
  SerializationOptions opt;
  opt.overflowNumberPolicy = (D.has("d.opt.overflowNumberPolicy") ? D.u64("d.opt.overflowNumberPolicy") : D.u64("d->opt.overflowNumberPolicy")) ? OverflowNumberPolicy::ThrowError : OverflowNumberPolicy::Skip;
  opt.mismatchedTypesPolicy = (D.has("d.opt.mismatchedTypesPolicy") ? D.u64("d.opt.mismatchedTypesPolicy") : D.u64("d->opt.mismatchedTypesPolicy")) ? MismatchedTypesPolicy::ThrowError : MismatchedTypesPolicy::Skip;
  CMsgPackStringReader r(doc, opt); r.SetPosition(p0);
  mp_head h = mp_ref_head((const unsigned char*)doc.data() + p0, doc.size() - p0);
  std::string e = D.entry; if (e.rfind("h_kf_", 0) == 0) e = "h_" + e.substr(5); std::string T = e.substr(e.rfind('_') + 1);
  bool intfam = h.family == MPF_UINT || h.family == MPF_NINT || h.family == MPF_BOOL; __int128 v = h.family == MPF_NINT ? (__int128)h.s : (__int128)h.u;
  bool bad = false; Outcome o = OtherErr; size_t consumed = 0;
  auto expectInt = [&](auto tag, __int128 lo, __int128 hi) { using TT = decltype(tag); TT t{}; o = run([&] { return r.ReadValue(t); }); consumed = r.GetPosition() - p0;
    if (remaining == 0) bad = o != ParseErr; else if (intfam && h.truncated) bad = o != ParseErr;
    else if (intfam) { bool fits = v >= lo && v <= hi; if (fits) bad = o != Loaded || (__int128)t != v || consumed != h.head_len; else bad = (opt.overflowNumberPolicy == OverflowNumberPolicy::ThrowError) ? o != OverflowErr : (o != NotLoaded || consumed != h.head_len); }
    else if (h.family != MPF_NIL && opt.mismatchedTypesPolicy == MismatchedTypesPolicy::ThrowError) bad = o != MismatchErr && o != ParseErr; else bad = o == Loaded; };
  if (T == "b") expectInt(bool{}, 0, 1); else if (T == "u8") expectInt(uint8_t{}, 0, 255); else if (T == "u16") expectInt(uint16_t{}, 0, 65535); else if (T == "u32") expectInt(uint32_t{}, 0, 4294967295LL);
  else if (T == "u64") expectInt(uint64_t{}, 0, (__int128)UINT64_MAX); else if (T == "c8") expectInt(char{}, -128, 127); else if (T == "i8") expectInt(int8_t{}, -128, 127); else if (T == "i16") expectInt(int16_t{}, -32768, 32767);
  else if (T == "i32") expectInt(int32_t{}, INT32_MIN, INT32_MAX); else if (T == "i64") expectInt(int64_t{}, INT64_MIN, INT64_MAX);
  else if (T == "array" || T == "map" || T == "bin") { size_t n = 0; int fam = T == "array" ? MPF_ARRAY : T == "map" ? MPF_MAP : MPF_BIN;
    o = run([&] { return T == "array" ? r.ReadArraySize(n) : T == "map" ? r.ReadMapSize(n) : r.ReadBinarySize(n); }); consumed = r.GetPosition() - p0;
    if (remaining == 0 || (h.family == fam && h.truncated)) bad = o != ParseErr; else if (h.family == fam) bad = o != Loaded || n != h.u || consumed != h.head_len; else bad = o == Loaded; }
  else if (T == "str") { std::string_view sv; o = run([&] { return r.ReadValue(sv); }); consumed = r.GetPosition() - p0;
    if (remaining == 0 || (h.family == MPF_STR && h.truncated)) bad = o != ParseErr; else if (h.family == MPF_STR) { if (h.u <= remaining - h.head_len && remaining <= CAP) bad = o != Loaded || sv.size() != h.u || sv.data() != doc.data() + p0 + h.head_len || consumed != h.head_len + h.u; else if (remaining <= CAP) bad = o != ParseErr; } else bad = o == Loaded; }
  else if (T == "ts" || T == "ts96" || T == "nanos") { BitSerializer::Detail::CBinTimestamp t; o = run([&] { return r.ReadValue(t); }); consumed = r.GetPosition() - p0;
    bool ts = h.family == MPF_EXT && !h.truncated && h.ext_type == -1; bool whole = ts && h.u <= remaining - h.head_len;
    if (whole && (h.u == 4 || h.u == 8 || h.u == 12)) { mp_ts ref = mp_ref_timestamp(h.u, (const unsigned char*)doc.data() + p0 + h.head_len); if (ref.ok) bad = o != Loaded || t.Seconds != ref.sec || (uint32_t)t.Nanoseconds != ref.nsec || consumed != h.head_len + h.u; else bad = o == Loaded || o == NotLoaded; }
    else if (whole) bad = o == Loaded || o == NotLoaded; else if (ts || (h.family == MPF_EXT && h.truncated) || remaining == 0) bad = o != ParseErr; else bad = o == Loaded; }
  else if (T == "type") { int vt = -1; o = run([&] { vt = (int)r.ReadValueType(); return true; });
    static const int map[] = {0, 1, 2, 3, 4, 5, 6, 7, 9, 8, 10, 11}; int exp = h.family == MPF_EXT ? (h.ext_type == -1 ? 12 : 11) : map[h.family];
    if (remaining == 0 || (h.family == MPF_EXT && h.truncated)) bad = o != ParseErr; else if (h.family != MPF_EXT || h.u <= remaining - h.head_len) bad = o != Loaded || vt != exp || r.GetPosition() != p0; printf("value type=%d expected=%d\n", vt, exp); }
  else if (T == "f32") { float t = 0; o = run([&] { return r.ReadValue(t); }); consumed = r.GetPosition() - p0; uint32_t b; memcpy(&b, &t, 4); if (h.family == MPF_F32 && !h.truncated) bad = o != Loaded || b != (uint32_t)h.u || consumed != 5; else if (h.family == MPF_F32 || (h.family == MPF_F64 && h.truncated) || remaining == 0) bad = o != ParseErr; }
  else if (T == "f64") { double t = 0; o = run([&] { return r.ReadValue(t); }); consumed = r.GetPosition() - p0; uint64_t b; memcpy(&b, &t, 8); if (h.family == MPF_F64 && !h.truncated) bad = o != Loaded || b != h.u || consumed != 9; else if (h.family == MPF_F64 || (h.family == MPF_F32 && h.truncated) || remaining == 0) bad = o != ParseErr; }
  else if (T == "nil") { std::nullptr_t t; o = run([&] { return r.ReadValue(t); }); consumed = r.GetPosition() - p0; if (remaining == 0) bad = o != ParseErr; else if (h.family == MPF_NIL) bad = o != Loaded || consumed != 1; else bad = o == Loaded; }
  else { puts("no native oracle for this harness"); puts("NOT-REPRODUCED"); return 0; }
  printf("entry=%s remaining=%llu first bytes:", D.entry.c_str(), (unsigned long long)remaining); for (size_t k = p0; k < doc.size() && k < p0 + 16; k++) printf(" %02X", (unsigned char)doc[k]);
  printf("\noutcome=%s consumed=%zu (reference: family=%d head_len=%u truncated=%d)\n", names[o], consumed, h.family, h.head_len, h.truncated);
  puts(bad ? "REPRODUCED: the real reader disagrees with the MessagePack reference decoder" : "NOT-REPRODUCED");
  return 0;
}
