// extraction TU: the real translation unit of the MsgPack readers (string reader part)
#include "../../../repo/src/msgpack/msgpack_readers.cpp"
