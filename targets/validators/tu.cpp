// extraction TU: built-in validators of include/bitserializer/serialization_detail/validators.h (functor call operators)
#include "bitserializer/serialization_detail/validators.h"
#include <string>
namespace verif_inst {
using namespace BitSerializer;
std::optional<std::string> required_i32(const Required& v, const int& value, bool loaded) { return v(value, loaded); }
std::optional<std::string> range_i32(const Range<int>& v, const int& value, bool loaded) { return v(value, loaded); }
std::optional<std::string> range_u8(const Range<unsigned char>& v, const unsigned char& value, bool loaded) { return v(value, loaded); }
std::optional<std::string> range_i16(const Range<short>& v, const short& value, bool loaded) { return v(value, loaded); }
std::optional<std::string> range_u64(const Range<unsigned long>& v, const unsigned long& value, bool loaded) { return v(value, loaded); }
std::optional<std::string> range_f64(const Range<double>& v, const double& value, bool loaded) { return v(value, loaded); }
std::optional<std::string> minsize_str(const MinSize& v, const std::string& value, bool loaded) { return v(value, loaded); }
std::optional<std::string> maxsize_str(const MaxSize& v, const std::string& value, bool loaded) { return v(value, loaded); }
}
