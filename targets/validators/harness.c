/* Built-in validators (validators.h): Required, Range<T>, MinSize, MaxSize - the functor call operators, loop-free, full domain.
   C17: Required fails only when the field was not loaded; Range/MinSize/MaxSize are inclusive and pass when the field is absent; a custom
   message is returned verbatim, otherwise a generated message. */
#include "models/prelude.h"
typedef struct { size_t size; int origin; } vstr_c8;                  /* std::string: length + where it came from (1 = generated text) */
typedef struct { char __e; } std_nullopt_t; static const std_nullopt_t m_std_nullopt = {0};
typedef struct { _Bool has; const char* custom; _Bool generated; } vopt_vstr_c8;   /* optional<string>: none / custom message pointer / generated message */
static inline vopt_vstr_c8 vopt_vstr_c8_ctor__std_nullopt_t(std_nullopt_t n) { (void)n; vopt_vstr_c8 o; o.has = 0; o.custom = 0; o.generated = 0; return o; }
static inline vopt_vstr_c8 vopt_vstr_c8_ctor_rkpkc8_1__rkpkc8(const char* const* p) { vopt_vstr_c8 o; o.has = 1; o.custom = *p; o.generated = 0; return o; }
static inline vopt_vstr_c8 vopt_vstr_c8_ctor_vstr_c8_1__xvstr_c8(vstr_c8* s) { vopt_vstr_c8 o; o.has = 1; o.custom = 0; o.generated = 1; return o; }
static inline size_t vstr_c8_size___k(const vstr_c8* s) { return s->size; }
static inline vstr_c8 gen_text(void) { vstr_c8 s; s.size = nondet_size_t(); s.origin = 1; return s; }
#define m_std_operator_op_plus_c8_std_char_traits_c8__pkc8_xvstr_c8(a, b) gen_text()
#define m_std_operator_op_plus_c8_std_char_traits_c8__xvstr_c8_pkc8(a, b) gen_text()
#define m_std_operator_op_plus_c8_std_char_traits_c8__xvstr_c8_xvstr_c8(a, b) gen_text()
#include "gen.h"
vstr_c8 Convert_ToString_rki32_0__rki32(const int* v) { return gen_text(); }
vstr_c8 Convert_ToString_rku64_0__rku64(const unsigned long* v) { return gen_text(); }
vstr_c8 Convert_ToString_rkf64_0__rkf64(const double* v) { return gen_text(); }
#include "gen.c"
static char g_msg[8];
#define MSG_OK(r, cmsg) ((cmsg) ? ((r).custom == (cmsg) && !(r).generated) : (r).generated)
void h_required(void) { struct Required v; v.mErrorMessage = g_msg; int x = nondet_int(); _Bool loaded = nondet_bool(); __verif_exc = 0;
  vopt_vstr_c8 r = verif_inst_required_i32__rkRequired_rki32_b(&v, &x, loaded);
  VERIF_ASSERT("C17", __verif_exc == 0 && r.has == !loaded && (!r.has || r.custom == g_msg), "Required fails if and only if the field was not loaded, with its message"); VERIF_CANARY(); }
#define H_RANGE(TAG, CT, NT, ST) \
void h_range_##TAG(void) { struct ST v; v.mMin = NT(); v.mMax = NT(); v.mErrorMessage = nondet_bool() ? g_msg : (const char*)0; CT x = NT(); _Bool loaded = nondet_bool(); __verif_exc = 0; \
  vopt_vstr_c8 r = verif_inst_range_##TAG##__rk##ST##_rk##TAG##_b(&v, &x, loaded); \
  VERIF_ASSERT("C17", __verif_exc == 0 && (loaded || !r.has), "Range passes when the field is absent"); \
  VERIF_ASSERT("C17", !loaded || r.has == (x < v.mMin || x > v.mMax), "Range is inclusive: it fails exactly for values below the minimum or above the maximum"); \
  VERIF_ASSERT("C17", !r.has || MSG_OK(r, v.mErrorMessage), "a custom message is returned verbatim, otherwise a generated one"); VERIF_CANARY(); }
H_RANGE(u8, unsigned char, nondet_uchar, Range_u8) H_RANGE(i16, short, nondet_short, Range_i16) H_RANGE(i32, int, nondet_int, Range_i32) H_RANGE(u64, unsigned long, nondet_ulong, Range_u64) H_RANGE(f64, double, nondet_double, Range_f64)
#define H_SIZE(NAME, ST, FIELD, FAILS) \
void h_##NAME(void) { struct ST v; v.FIELD = nondet_size_t(); v.mErrorMessage = nondet_bool() ? g_msg : (const char*)0; vstr_c8 s; s.size = nondet_size_t(); s.origin = 0; _Bool loaded = nondet_bool(); __verif_exc = 0; \
  vopt_vstr_c8 r = verif_inst_##NAME##_str__rk##ST##_rkvstr_c8_b(&v, &s, loaded); \
  VERIF_ASSERT("C17", __verif_exc == 0 && (loaded || !r.has), #ST " passes when the field is absent"); \
  VERIF_ASSERT("C17", !loaded || r.has == (FAILS), #ST " is inclusive"); \
  VERIF_ASSERT("C17", !r.has || MSG_OK(r, v.mErrorMessage), "a custom message is returned verbatim, otherwise a generated one"); VERIF_CANARY(); }
H_SIZE(minsize, MinSize, mMinSize, s.size < v.mMinSize) H_SIZE(maxsize, MaxSize, mMaxSize, s.size > v.mMaxSize)
/*@jobs
for H in required range_u8 range_i16 range_i32 range_u64 range_f64 minsize maxsize:
  job entry=h_{H} props=C17 mode=direct unwind=2
@*/
