// extraction TU: DetectEncoding(string_view, size_t&) / StartsWithBom / WriteBom of convert_utf.h
#include "bitserializer/conversion_detail/convert_utf.h"
namespace verif_inst {
using namespace BitSerializer::Convert::Utf;
int detect(std::string_view s, size_t& off) { return static_cast<int>(DetectEncoding(s, off)); }
void write_bom(std::ostream& os, int enc) { WriteBom(os, static_cast<UtfType>(enc)); }
}
