/* DetectEncoding(string_view, size_t&), StartsWithBom and WriteBom (convert_utf.h).  C13:
   - each of the five BOMs selects its encoding and reports the BOM length (UTF-32LE before UTF-16LE), for every text length;
   - without a BOM, a text whose first code unit is an ASCII character other than NUL is detected as the encoding it is written in, for EVERY
     length of at least one code unit (whole function on all texts up to 8 bytes + the loop step for arbitrary lengths);
   - UTF-8 text without NUL bytes is never taken for UTF-16/32 (loop step at an arbitrary position);
   - all reads stay inside the text; WriteBom emits exactly the BOM table of the Unicode FAQ. */
#include "models/prelude.h"
#include "models/sink.h"
#include "models/docwin.h"
static inline const char* m_std_cbegin_vsv_c8__rkvsv_c8(const vsv_c8* s) { return s->data; }
#pragma CPROVER check push
#pragma CPROVER check disable "pointer-overflow"
static inline const char* m_std_cend_vsv_c8__rkvsv_c8(const vsv_c8* s) { return s->data + s->size; }   /* the end iterator lies outside the materialised window; it is only compared, never dereferenced */
#pragma CPROVER check pop
#include "gen.h"
#include "gen.c"
#define DET Utf_DetectEncoding__vsv_c8_ru64
#define CAT_(a, b) a##b
#define CAT(a, b) CAT_(a, b)
static inline unsigned unit_size(int t) { return t == UtfType_Utf8 ? 1 : (t == UtfType_Utf16le || t == UtfType_Utf16be) ? 2 : 4; }
/* does the byte text b[0..n) start with the ASCII non-NUL character c encoded in t ? */
static inline _Bool starts_with_ascii(const unsigned char* b, size_t n, int t, unsigned char c) {
  if (c == 0 || c > 0x7f || n < unit_size(t)) return 0;
  switch (t) { case UtfType_Utf16le: return b[0] == c && b[1] == 0; case UtfType_Utf16be: return b[0] == 0 && b[1] == c;
    case UtfType_Utf32le: return b[0] == c && b[1] == 0 && b[2] == 0 && b[3] == 0; case UtfType_Utf32be: return b[0] == 0 && b[1] == 0 && b[2] == 0 && b[3] == c; default: return b[0] == c; } }

/* ---- BOMs: whole function, arbitrary length ---- */
void h_bom(void) { struct docwin d; docwin_init(&d); __CPROVER_assume(d.pos == 0); vsv_c8 s; s.data = (const char*)d.data; s.size = d.size; size_t off = nondet_size_t(); __verif_exc = 0;
  const unsigned char* b = d.wb; size_t n = d.size;
  __CPROVER_assume(n == 0 || (n >= 2 && ((b[0] == 0xFF && b[1] == 0xFE) || (b[0] == 0xFE && b[1] == 0xFF))) || (n >= 3 && b[0] == 0xEF && b[1] == 0xBB && b[2] == 0xBF) || (n >= 4 && b[0] == 0 && b[1] == 0 && b[2] == 0xFE && b[3] == 0xFF));   /* this harness covers exactly the texts that start with a BOM (and the empty text); BOM-less texts: h_short, h_step */
  int t = verif_inst_detect__vsv_c8_ru64(s, &off);
  _Bool u8 = n >= 3 && b[0] == 0xEF && b[1] == 0xBB && b[2] == 0xBF, u32le = n >= 4 && b[0] == 0xFF && b[1] == 0xFE && b[2] == 0 && b[3] == 0, u32be = n >= 4 && b[0] == 0 && b[1] == 0 && b[2] == 0xFE && b[3] == 0xFF,
        u16le = n >= 2 && b[0] == 0xFF && b[1] == 0xFE && !u32le, u16be = n >= 2 && b[0] == 0xFE && b[1] == 0xFF;
  VERIF_ASSERT("C13,C02", __verif_exc == 0, "detection never raises");
  VERIF_ASSERT("C13", !u8 || (t == UtfType_Utf8 && off == 3), "EF BB BF selects UTF-8 and skips 3 bytes");
  VERIF_ASSERT("C13", !u32le || (t == UtfType_Utf32le && off == 4), "FF FE 00 00 selects UTF-32LE (not UTF-16LE) and skips 4 bytes");
  VERIF_ASSERT("C13", !u32be || (t == UtfType_Utf32be && off == 4), "00 00 FE FF selects UTF-32BE and skips 4 bytes");
  VERIF_ASSERT("C13", !u16le || (t == UtfType_Utf16le && off == 2), "FF FE (not followed by 00 00) selects UTF-16LE and skips 2 bytes");
  VERIF_ASSERT("C13", !u16be || (t == UtfType_Utf16be && off == 2), "FE FF selects UTF-16BE and skips 2 bytes");
  VERIF_ASSERT("C13", n != 0 || (t == UtfType_Utf8 && off == 0), "the empty text is UTF-8 with no offset");
  VERIF_CANARY(); }
/* the BOM cases never enter the analysis loop; restrict to them so that the loop needs no unwinding */
void h_bom_entry(void) { h_bom(); }

/* ---- whole function on every text of up to 8 bytes (boundary lengths: exactly one code unit) ---- */
void h_short(void) { unsigned char buf[8]; size_t n = nondet_size_t(); __CPROVER_assume(n <= 8); for (unsigned k = 0; k < 8; k++) buf[k] = nondet_uchar();
  unsigned char* exact = malloc(n); __CPROVER_assume(exact != 0); for (unsigned k = 0; k < 8; k++) if (k < n) exact[k] = buf[k];
  vsv_c8 s; s.data = (const char*)exact; s.size = n; size_t off = nondet_size_t(); __verif_exc = 0; int enc = nondet_int(); unsigned char c = nondet_uchar();
  __CPROVER_assume(enc == UtfType_Utf16le || enc == UtfType_Utf16be || enc == UtfType_Utf32le || enc == UtfType_Utf32be);
  __CPROVER_assume(starts_with_ascii(buf, n, enc, c) && n % unit_size(enc) == 0);
  __CPROVER_assume(!((enc == UtfType_Utf16le || enc == UtfType_Utf16be) && n >= 4 && buf[2] == 0 && buf[3] == 0));   /* texts containing NUL characters are inherently ambiguous between UTF-16 and UTF-32 and are not claimed */
  int t = verif_inst_detect__vsv_c8_ru64(s, &off);
  VERIF_ASSERT("C13", t == enc && off == 0, "[KF-C13-detect-single-unit] a BOM-less UTF-16/32 text that begins with an ASCII character other than NUL is detected as its encoding for every length, including exactly one code unit");
  VERIF_CANARY(); }

/* ---- the analysis loop step at an arbitrary position of an arbitrarily long text ---- */
void h_step(void) { struct docwin d; docwin_init(&d); __CPROVER_assume(d.pos < d.size); vsv_c8 s; s.data = (const char*)d.data; s.size = d.size;
  int ut0 = UtfType_Utf8; int ut = ut0; unsigned long i = d.pos; int ret = 0; struct CAT(DET, __loop1_env) e; e.inputString = &s; e.utfType = &ut; e.i = &i; e.__ret = &ret; __verif_exc = 0;
  int rc = CAT(DET, __loop1_body)(&e); const unsigned char* b = d.wb; size_t rem = d.size - d.pos;
  VERIF_ASSERT("C13,C02", (rc == 0 || rc == 1) && __verif_exc == 0 && i == d.pos, "one analysis step either continues or stops the scan; it never raises");
  VERIF_ASSERT("C13", !(d.pos == 0 && rem >= 2 && b[0] != 0 && b[0] <= 0x7f && b[1] == 0 && !(rem >= 4 && b[2] == 0 && b[3] == 0)) || (rc == 1 && ut == UtfType_Utf16le), "[KF-C13-detect-single-unit] first unit ASCII in UTF-16LE => UTF-16LE");
  VERIF_ASSERT("C13", !(d.pos == 0 && rem >= 2 && b[0] == 0 && b[1] != 0 && b[1] <= 0x7f && !(rem >= 4 && b[2] == 0 && b[3] == 0)) || (rc == 1 && ut == UtfType_Utf16be), "[KF-C13-detect-single-unit] first unit ASCII in UTF-16BE => UTF-16BE");
  VERIF_ASSERT("C13", !(d.pos == 0 && rem >= 4 && b[0] != 0 && b[0] <= 0x7f && b[1] == 0 && b[2] == 0 && b[3] == 0) || (rc == 1 && ut == UtfType_Utf32le), "[KF-C13-detect-single-unit] first unit ASCII in UTF-32LE => UTF-32LE");
  VERIF_ASSERT("C13", !(d.pos == 0 && rem >= 4 && b[0] == 0 && b[1] == 0 && b[2] == 0 && b[3] != 0 && b[3] <= 0x7f) || (rc == 1 && ut == UtfType_Utf32be), "[KF-C13-detect-single-unit] first unit ASCII in UTF-32BE => UTF-32BE");
  VERIF_ASSERT("C13", !((rem < 1 || b[0] != 0) && (rem < 2 || b[1] != 0) && (rem < 3 || b[2] != 0) && (rem < 4 || b[3] != 0)) || (rc == 0 && ut == ut0), "text without NUL bytes (UTF-8) is never taken for UTF-16 or UTF-32");
  VERIF_CANARY(); }

void h_write_bom(void) { vsink out; out.len = nondet_size_t(); __CPROVER_assume(out.len < ((size_t)1 << 60)); out.base = out.len; out.expect_bulk_ptr = 0; out.bulk_count = 0; out.small_ops = 0; size_t len0 = out.len;
  int enc = nondet_int(); __CPROVER_assume(enc >= UtfType_Utf8 && enc <= UtfType_Utf32be); __verif_exc = 0;
  verif_inst_write_bom__rvostream_i32(&out, enc); size_t n = out.len - len0; const unsigned char* w = out.win;
  VERIF_ASSERT("C13", __verif_exc == 0 && out.bulk_count == 0 && (enc == UtfType_Utf8 ? (n == 3 && w[0] == 0xEF && w[1] == 0xBB && w[2] == 0xBF) : enc == UtfType_Utf16le ? (n == 2 && w[0] == 0xFF && w[1] == 0xFE) : enc == UtfType_Utf16be ? (n == 2 && w[0] == 0xFE && w[1] == 0xFF)
     : enc == UtfType_Utf32le ? (n == 4 && w[0] == 0xFF && w[1] == 0xFE && w[2] == 0 && w[3] == 0) : (n == 4 && w[0] == 0 && w[1] == 0 && w[2] == 0xFE && w[3] == 0xFF)), "WriteBom emits exactly the byte order mark of the requested encoding");
  VERIF_CANARY(); }
/*@jobs
job entry=h_short props=C13 mode=direct unwind=10 kf=KF-C13-detect-single-unit
job entry=h_step props=C13,C02 mode=direct unwind=40 kf=KF-C13-detect-single-unit
job entry=h_bom props=C13,C02 mode=direct unwind=40
job entry=h_write_bom props=C13 mode=direct unwind=20
@*/
