// extraction TU: SkipValueImpl(CBinaryStreamReader&) of src/msgpack/msgpack_readers.cpp; CBinaryStreamReader is contract-only, recursion goes to the contract stub
#include "../../../repo/src/msgpack/msgpack_readers.cpp"
