/* Contract of SkipValueImpl(CBinaryStreamReader&) (src/msgpack/msgpack_readers.cpp:870-921) enforced on the real body: the same contract as the
   in-memory skipper (target msgpack_skip), over the abstract stream view.  This is the contract the stream reader proofs assume. */
#include "models/prelude.h"
#include "models/sv.h"
#include "models/docwin.h"
typedef struct { int _opaque; } vistream;
typedef struct { _Bool has; char v; } vopt_c8;
static inline _Bool vopt_c8_conv_b___k(const vopt_c8* o) { return o->has; }
static inline const char* vopt_c8_op_star___k(const vopt_c8* o) { __CPROVER_assert(o->has, "MODEL: optional::operator* on an engaged optional (UB otherwise)"); return &o->v; }
#include "spec/binstream_view.h"
#include "gen.h"
#define VERIF_BINSTREAM_VIEW_STUBS
#include "spec/binstream_view.h"
#include "spec/msgpack_spec.h"
size_t g_rec_calls;
void SkipValueImpl__rCBinaryStreamReader__rec(struct CBinaryStreamReader* r) {
  __CPROVER_assert(g_spos <= g_docsize && __verif_exc == 0, "C05: precondition of the recursive call: position inside the stream, no exception in flight");
  g_rec_calls++;
  if (nondet_bool()) { __verif_exc = EXC_ParsingException; return; }
  size_t np = nondet_size_t(); __CPROVER_assume(np > g_spos && np <= g_docsize); g_spos = np; }
#define VERIF_LOOP_SkipValueImpl__rCBinaryStreamReader_1 \
  __CPROVER_assigns(i, g_spos, __verif_exc, __verif_exc_code, g_rec_calls) \
  __CPROVER_loop_invariant(i <= extSize && __verif_exc == 0 && g_spos <= g_docsize && g_spos >= __CPROVER_loop_entry(g_spos) + 2 * (size_t)i && g_rec_calls == 2 * (size_t)i) \
  __CPROVER_decreases(extSize - i)
#define VERIF_LOOP_SkipValueImpl__rCBinaryStreamReader_2 \
  __CPROVER_assigns(i, g_spos, __verif_exc, __verif_exc_code, g_rec_calls) \
  __CPROVER_loop_invariant(i <= extSize && __verif_exc == 0 && g_spos <= g_docsize && g_spos >= __CPROVER_loop_entry(g_spos) + (size_t)i && g_rec_calls == (size_t)i) \
  __CPROVER_decreases(extSize - i)
#include "gen.c"
void h_skip(void) {
  struct docwin d; docwin_init(&d); mp_head h = mp_ref_head(d.wb, d.size - d.pos); struct CBinaryStreamReader r;
  g_docdata = d.data; g_docsize = d.size; g_spos = d.pos; __verif_exc = 0; __verif_exc_code = 0; g_rec_calls = 0;
  SkipValueImpl__rCBinaryStreamReader(&r); size_t pos = g_spos;
  _Bool at_end = d.pos == d.size; _Bool container = h.family == MPF_ARRAY || h.family == MPF_MAP;
  size_t payload = (h.family == MPF_STR || h.family == MPF_BIN || h.family == MPF_EXT) ? h.u : 0;
  size_t remaining = d.size - d.pos;
  VERIF_ASSERT("C05,C20,C02", __verif_exc == 0 || __verif_exc == EXC_ParsingException, "skipping raises nothing but ParsingException");
  VERIF_ASSERT("C05,C03,C10", __verif_exc != 0 || (pos > d.pos && pos <= d.size), "a successful skip advances strictly and stays inside the stream");
  VERIF_ASSERT("C05,C20", !at_end || __verif_exc == EXC_ParsingException, "skipping at the end of the stream raises ParsingException");
  VERIF_ASSERT("C05,C20", !(!at_end && h.truncated) || __verif_exc == EXC_ParsingException, "a head cut by the end of the stream raises ParsingException");
  VERIF_ASSERT("C05,C03,C07,C10", !(!at_end && !h.truncated && !container && h.family != MPF_INVALID && payload <= remaining - h.head_len) || (__verif_exc == 0 && pos == d.pos + h.head_len + payload && g_rec_calls == 0), "a complete scalar/str/bin/ext value is skipped as exactly head + payload bytes");
  VERIF_ASSERT("C05,C20", !(!at_end && !h.truncated && !container && payload > remaining - h.head_len) || __verif_exc == EXC_ParsingException, "a str/bin/ext payload cut by the end of the stream raises ParsingException");
  VERIF_ASSERT("C05,C03,C07,C10", !(!at_end && !h.truncated && container && h.u == 0) || (__verif_exc == 0 && pos == d.pos + h.head_len && g_rec_calls == 0), "an empty array/map is skipped as exactly its head");
  VERIF_ASSERT("C05,C03,C07,C10", !(__verif_exc == 0 && h.family == MPF_ARRAY) || (g_rec_calls == h.u && pos >= d.pos + h.head_len + h.u), "an array is skipped as its head followed by exactly count element skips");
  VERIF_ASSERT("C05,C03,C07,C10", !(__verif_exc == 0 && h.family == MPF_MAP) || (g_rec_calls == 2 * h.u && pos >= d.pos + h.head_len + 2 * h.u), "a map is skipped as its head followed by exactly 2*count key/value skips");
  VERIF_ASSERT("C07", !(!at_end && h.family == MPF_INVALID) || __verif_exc != 0, "the never-used first byte 0xC1 is rejected, not skipped as a value");
  VERIF_CANARY();
}
/*@jobs
job entry=h_skip props=C05,C03,C20,C02,C07,C10 mode=direct loops=1 unwind=40
@*/
