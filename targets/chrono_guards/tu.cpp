// extraction TU: overflow guards and calendar arithmetic of include/bitserializer/conversion_detail/convert_chrono.h through thin wrappers
// taking/returning raw tick counts.
#include "bitserializer/convert.h"
#include <chrono>
namespace verif_inst {
using namespace std::chrono; using namespace BitSerializer::Convert::Detail;
typedef duration<long, std::ratio<86400>> days_t; typedef duration<long, std::ratio<604800>> weeks_t;
typedef duration<int, std::milli> ms32_t; typedef duration<unsigned long, std::ratio<1>> us64s_t; typedef duration<signed char, std::ratio<3600>> h8_t; typedef duration<short, std::milli> ms16_t;
#define SDC(NAME, SRC, SRCREP, DST, DSTREP) DSTREP sdc_##NAME(SRCREP c) { return SafeDurationCast<DST>(SRC(c)).count(); }
// every ordered pair among the 64-bit signed units
#define UNITS(X, S, SN) X(S##_ns, SN, long, nanoseconds, long) X(S##_us, SN, long, microseconds, long) X(S##_ms, SN, long, milliseconds, long) X(S##_s, SN, long, seconds, long) \
  X(S##_min, SN, long, minutes, long) X(S##_h, SN, long, hours, long) X(S##_d, SN, long, days_t, long) X(S##_w, SN, long, weeks_t, long)
UNITS(SDC, ns, nanoseconds) UNITS(SDC, us, microseconds) UNITS(SDC, ms, milliseconds) UNITS(SDC, s, seconds) UNITS(SDC, min, minutes) UNITS(SDC, h, hours) UNITS(SDC, d, days_t) UNITS(SDC, w, weeks_t)
// narrower / unsigned representations
SDC(s_ms32, seconds, long, ms32_t, int) SDC(ms32_s, ms32_t, int, seconds, long) SDC(s_u64s, seconds, long, us64s_t, unsigned long) SDC(u64s_ms, us64s_t, unsigned long, milliseconds, long)
SDC(min_h8, minutes, long, h8_t, signed char) SDC(h8_s, h8_t, signed char, seconds, long) SDC(s_ms16, seconds, long, ms16_t, short) SDC(ns_ms16, nanoseconds, long, ms16_t, short)
#define ADD_TP(NAME, TPD, SRC) long addtp_##NAME(long tp, long d) { time_point<system_clock, TPD> t{TPD(tp)}; SafeAddDuration(t, SRC(d)); return t.time_since_epoch().count(); }
ADD_TP(ns_s, nanoseconds, seconds) ADD_TP(ns_d, nanoseconds, days_t) ADD_TP(ms_ns, milliseconds, nanoseconds) ADD_TP(s_s, seconds, seconds) ADD_TP(s_d, seconds, days_t) ADD_TP(h_d, hours, days_t) ADD_TP(us_ms, microseconds, milliseconds)
#define ADD_D(NAME, TD, TREP, SRC) TREP addd_##NAME(TREP t, long d) { TD x(t); SafeAddDuration(x, SRC(d)); return x.count(); }
ADD_D(ns_s, nanoseconds, long, seconds) ADD_D(s_h, seconds, long, hours) ADD_D(ms16_s, ms16_t, short, seconds) ADD_D(u64s_min, us64s_t, unsigned long, minutes) ADD_D(d_w, days_t, long, weeks_t) ADD_D(ms_ms, milliseconds, long, milliseconds)
}
