// Native replay for chrono_guards: calls the REAL SafeDurationCast / SafeAddDuration with the counterexample's tick counts (built with
// -fsanitize=undefined: signed overflow is reported) and compares with exact __int128 arithmetic.
#include "bitserializer/convert.h"
#include <chrono>
#include <cstdio>
#include <functional>
#include <map>
#include "replay/replay_util.h"
using namespace std::chrono; using namespace BitSerializer::Convert::Detail;
typedef duration<long, std::ratio<86400>> days_t; typedef duration<long, std::ratio<604800>> weeks_t;
typedef duration<int, std::milli> ms32_t; typedef duration<unsigned long, std::ratio<1>> us64s_t; typedef duration<signed char, std::ratio<3600>> h8_t; typedef duration<short, std::milli> ms16_t;
typedef __int128 mint;
static ReplayDoc D; static bool bad = false, done = false;
template <class SRC, class DST> static void sdc(const char* name) {
  if (D.entry != std::string("h_sdc_") + name) return; done = true;
  typename SRC::rep c = (typename SRC::rep)D.i64("c"); bool raised = false; typename DST::rep r = 0;
  try { r = SafeDurationCast<DST>(SRC(c)).count(); } catch (const std::out_of_range&) { raised = true; }
  mint num = (mint)c * SRC::period::num * DST::period::den, den = (mint)SRC::period::den * DST::period::num; mint q = num / den; bool exact = q * den == num;
  bool fits = q >= (mint)std::numeric_limits<typename DST::rep>::min() && q <= (mint)std::numeric_limits<typename DST::rep>::max();
  printf("%s(%lld) -> %s %lld\n", name, (long long)c, raised ? "out_of_range" : "value", (long long)r);
  bad = raised ? (exact && fits) : (!exact || (mint)r != q);
}
template <class TPD, class SRC> static void addtp(const char* name) {
  if (D.entry != std::string("h_addtp_") + name) return; done = true;
  long t = D.i64("t"), d = D.i64("d"); bool raised = false; long r = 0;
  try { time_point<system_clock, TPD> tp{TPD(t)}; SafeAddDuration(tp, SRC(d)); r = tp.time_since_epoch().count(); } catch (const std::out_of_range&) { raised = true; }
  mint num = (mint)d * SRC::period::num * TPD::period::den, den = (mint)SRC::period::den * TPD::period::num; mint q = num / den; bool exact = q * den == num; mint sum = (mint)t + q;
  bool qf = q >= INT64_MIN && q <= INT64_MAX, fits = sum >= INT64_MIN && sum <= INT64_MAX;
  printf("%s(tp=%ld, d=%ld) -> %s %ld\n", name, t, d, raised ? "out_of_range" : "value", r);
  bad = raised ? (exact && qf && fits) : (!exact || (mint)r != sum);
}
template <class TD, class SRC> static void addd(const char* name) {
  if (D.entry != std::string("h_addd_") + name) return; done = true;
  typename TD::rep t = (typename TD::rep)D.i64("t"); long d = D.i64("d"); bool raised = false; typename TD::rep r = 0;
  try { TD x(t); SafeAddDuration(x, SRC(d)); r = x.count(); } catch (const std::out_of_range&) { raised = true; }
  mint num = (mint)d * SRC::period::num * TD::period::den, den = (mint)SRC::period::den * TD::period::num; mint q = num / den; bool exact = q * den == num; mint sum = (mint)t + q;
  mint lo = (mint)std::numeric_limits<typename TD::rep>::min(), hi = (mint)std::numeric_limits<typename TD::rep>::max();
  printf("%s(t=%lld, d=%ld) -> %s %lld\n", name, (long long)t, d, raised ? "out_of_range" : "value", (long long)r);
  bad = raised ? (exact && q >= lo && q <= hi && sum >= lo && sum <= hi) : (!exact || (mint)r != sum);
}
#define SDC(NAME, SRC, SRCREP, DST, DSTREP) sdc<SRC, DST>(#NAME);
#define UNITS(X, S, SN) X(S##_ns, SN, long, nanoseconds, long) X(S##_us, SN, long, microseconds, long) X(S##_ms, SN, long, milliseconds, long) X(S##_s, SN, long, seconds, long) \
  X(S##_min, SN, long, minutes, long) X(S##_h, SN, long, hours, long) X(S##_d, SN, long, days_t, long) X(S##_w, SN, long, weeks_t, long)
int main(int argc, char** argv) {
  if (argc < 2 || !D.load(argv[1])) { puts("cannot read replay file"); return 2; }
  UNITS(SDC, ns, nanoseconds) UNITS(SDC, us, microseconds) UNITS(SDC, ms, milliseconds) UNITS(SDC, s, seconds) UNITS(SDC, min, minutes) UNITS(SDC, h, hours) UNITS(SDC, d, days_t) UNITS(SDC, w, weeks_t)
  sdc<seconds, ms32_t>("s_ms32"); sdc<ms32_t, seconds>("ms32_s"); sdc<seconds, us64s_t>("s_u64s"); sdc<us64s_t, milliseconds>("u64s_ms"); sdc<minutes, h8_t>("min_h8"); sdc<h8_t, seconds>("h8_s"); sdc<seconds, ms16_t>("s_ms16"); sdc<nanoseconds, ms16_t>("ns_ms16");
  addtp<nanoseconds, seconds>("ns_s"); addtp<nanoseconds, days_t>("ns_d"); addtp<milliseconds, nanoseconds>("ms_ns"); addtp<seconds, seconds>("s_s"); addtp<seconds, days_t>("s_d"); addtp<hours, days_t>("h_d"); addtp<microseconds, milliseconds>("us_ms");
  addd<nanoseconds, seconds>("ns_s"); addd<seconds, hours>("s_h"); addd<ms16_t, seconds>("ms16_s"); addd<us64s_t, minutes>("u64s_min"); addd<days_t, weeks_t>("d_w"); addd<milliseconds, milliseconds>("ms_ms");
  if (!done) { puts("unknown harness"); return 2; }
  puts(bad ? "REPRODUCED: the real guard returns a wrapped/inexact value or refuses a representable one" : "NOT-REPRODUCED"); return 0;
}
