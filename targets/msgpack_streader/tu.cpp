// extraction TU: the real translation unit of the MsgPack readers (stream reader part).  CBinaryStreamReader's methods are contract-only
// callees (the class is proved against exactly this abstract view in target bin_stream_reader); the recursive SkipValueImpl(stream) is
// contract-only here and proved in job h_skip_impl of this target with its own recursion replaced by the contract.
#include "../../../repo/src/msgpack/msgpack_readers.cpp"
