/* Contracts + harnesses for the real CMsgPackStreamReader (src/msgpack/msgpack_readers.cpp:821-1420), proved against THE SAME reader contract
   (spec/msgpack_reader_contract.h) and the same reference decoder as the in-memory reader: C10 for MsgPack is exactly this identity.
   The stream is the abstract view that CBinaryStreamReader is proved to implement (target bin_stream_reader): contents = a document of
   symbolic size, logical position g_spos; ReadByte/PeekByte/GotoNextByte/ReadSolidBlock(n)/ReadByChunks(n)/SetPosition behave as their
   proved postconditions say - in particular ReadByChunks may return ANY non-empty prefix of what is left (any chunk boundary), so the
   string-reading loop is proved for every way the payload can be split over chunks (loop contract, every payload length). */
#include "models/prelude.h"
#include "models/sv.h"
#include <stdlib.h>
static inline vsv_c8* vsv_c8_op_assign__rkvsv_c8(vsv_c8* s, const vsv_c8* o) { *s = *o; return s; }
typedef struct { int _opaque; } vistream;
typedef struct { _Bool has; char v; } vopt_c8;
static inline _Bool vopt_c8_conv_b___k(const vopt_c8* o) { return o->has; }
static inline const char* vopt_c8_op_star___k(const vopt_c8* o) { __CPROVER_assert(o->has, "MODEL: optional::operator* on an engaged optional (UB otherwise)"); return &o->v; }

static inline const char* vopt_c8_value___k(const vopt_c8* o) { if (!o->has) __verif_exc = 10 /* std::bad_optional_access */; return &o->v; }
/* the reader's std::string buffer: which consecutive document bytes it holds (ghost), not the bytes themselves */
typedef struct { size_t from; size_t len; _Bool contiguous; } vstr_c8;
#include "spec/binstream_view.h"
static inline vstr_c8 vstr_c8_ctor(void) { vstr_c8 s; s.from = 0; s.len = 0; s.contiguous = 1; return s; }
static inline void vstr_c8_clear(vstr_c8* s) { s->len = 0; s->contiguous = 1; }
static inline size_t vstr_c8_size___k(const vstr_c8* s) { return s->len; }
static inline _Bool m_std_isfinite__f32(float x) { return !__CPROVER_isnanf(x) && !__CPROVER_isinff(x); }
static inline _Bool m_std_isfinite__f64(double x) { return !__CPROVER_isnand(x) && !__CPROVER_isinfd(x); }
static inline void vstr_c8_reserve__u64(vstr_c8* s, unsigned long n) { (void)s; (void)n; }   /* allocation failure is not modelled (stated) */
static inline vstr_c8* vstr_c8_op_addassign_vsv_c8__rkvsv_c8(vstr_c8* s, const vsv_c8* v) {
  __CPROVER_assert(v->data == g_view_ptr, "MODEL: the appended view is the block handed out last by the stream reader"); size_t off = g_view_off;
  if (s->len == 0) s->from = off; else if (off != s->from + s->len) s->contiguous = 0;
  s->len += v->size; return s; }
static inline vsv_c8 vstr_c8_conv_vsv_c8___k(const vstr_c8* s) { vsv_c8 v; v.data = doc_ptr(s->from); v.size = s->len; if (!s->contiguous) v.data = 0; return v; }
#include "gen.h"
#include "spec/msgpack_spec.h"
#include "spec/num_spec.h"

#define VERIF_BINSTREAM_VIEW_STUBS
#include "spec/binstream_view.h"
/* ---- contract of SkipValueImpl(CBinaryStreamReader&) ---- */
unsigned g_skip_calls; size_t g_skip_from;
void SkipValueImpl__rCBinaryStreamReader(struct CBinaryStreamReader* r) {
  g_skip_calls++; g_skip_from = g_spos;
  if (nondet_bool()) { __verif_exc = EXC_ParsingException; return; }
  size_t np = nondet_size_t(); __CPROVER_assume(np > g_spos && np <= g_docsize); g_spos = np; }
/* string payload loop: the buffer holds the payload bytes read so far, in order, and the stream stands right behind them */
static size_t g_pay_start, g_pay_len;
#define VERIF_LOOP_CMsgPackStreamReader_ReadValue__rvsv_c8_1 \
  __CPROVER_assigns(remainingSize, g_spos, g_view_off, g_view_ptr, self->mBuffer.from, self->mBuffer.len, self->mBuffer.contiguous, __verif_exc, __verif_exc_code) \
  __CPROVER_loop_invariant(__verif_exc == 0 && self->mBuffer.contiguous && self->mBuffer.len <= g_pay_len && remainingSize == g_pay_len - self->mBuffer.len && g_spos == g_pay_start + self->mBuffer.len && g_spos <= g_docsize && (self->mBuffer.len == 0 || self->mBuffer.from == g_pay_start)) \
  __CPROVER_decreases(remainingSize)
#include "gen.c"

#define WIN 32
struct doc { unsigned char wb[WIN]; unsigned char* win; size_t wlen; const unsigned char* data; size_t size; size_t pos; struct SerializationOptions opt; struct CMsgPackStreamReader r; };
static void doc_init(struct doc* d) {
  d->size = nondet_size_t(); __CPROVER_assume(d->size <= ((size_t)1 << 54));
  d->pos = nondet_size_t(); __CPROVER_assume(d->pos <= d->size);
#ifdef VERIF_SMALL_CE
  __CPROVER_assume(d->size - d->pos <= 4096);
#endif
  d->wlen = d->size - d->pos < WIN ? d->size - d->pos : WIN;
  d->win = malloc(d->wlen); __CPROVER_assume(d->win != 0);
  for (unsigned k = 0; k < WIN; k++) d->wb[k] = k < d->wlen ? d->win[k] : 0;
#pragma CPROVER check push
#pragma CPROVER check disable "pointer-overflow"
  d->data = d->win - d->pos;
#pragma CPROVER check pop
  d->opt.overflowNumberPolicy = nondet_bool() ? OverflowNumberPolicy_ThrowError : OverflowNumberPolicy_Skip;
  d->opt.mismatchedTypesPolicy = nondet_bool() ? MismatchedTypesPolicy_ThrowError : MismatchedTypesPolicy_Skip;
  d->r.mSerializationOptions = &d->opt; d->r.mBuffer = vstr_c8_ctor(); d->r.mBuffer.len = nondet_size_t(); d->r.mBuffer.from = nondet_size_t();   /* the buffer holds anything from an earlier read */
  g_docdata = d->data; g_docsize = d->size; g_spos = d->pos;
  __verif_exc = 0; __verif_exc_code = 0; g_skip_calls = 0;
}
#define PRE struct doc d; doc_init(&d); mp_head h = mp_ref_head(d.wb, d.size - d.pos); g_pay_start = d.pos + h.head_len; g_pay_len = h.u;
#define RD(x) CMsgPackStreamReader_##x
#define CURPOS g_spos
#define STR_DELIVERED(t) (d.r.mBuffer.contiguous && (h.u == 0 || d.r.mBuffer.from == d.pos + h.head_len) && d.r.mBuffer.len == h.u && (t).size == h.u && (t).data == doc_ptr(d.r.mBuffer.from))
#define PARSE_ERROR_KEEPS_POSITION 1
#include "spec/msgpack_reader_contract.h"

void h_position(void) { PRE size_t p = nondet_size_t();
  VERIF_ASSERT("C03,C10", CMsgPackStreamReader_GetPosition___k(&d.r) == d.pos, "GetPosition reports the logical read position");
  _Bool e = CMsgPackStreamReader_IsEnd___k(&d.r);
  VERIF_ASSERT("C10", !e || d.pos == d.size, "IsEnd implies that nothing is left");
  CMsgPackStreamReader_SetPosition__u64(&d.r, p);
  /* a position beyond the stream is never requested by the archive (only the start of a map is); the stream reader ignores the failure where the
     in-memory reader raises invalid_argument - outside what C10/C03 state, so only "nothing moves" is required there */
  VERIF_ASSERT("C03,C10", p <= d.size ? (__verif_exc == 0 && g_spos == p) : g_spos == d.pos, "SetPosition moves to any position inside the stream; a position beyond it moves nothing");
  VERIF_CANARY(); }
void h_skip(void) { PRE CMsgPackStreamReader_SkipValue(&d.r);
  VERIF_ASSERT("C05", g_skip_calls == 1 && g_skip_from == d.pos, "SkipValue skips exactly one value from the read position"); VERIF_CANARY(); }

/*@jobs
for T in b u8 u16 u32 u64 c8 i8 i16 i32 i64:
  job entry=h_read_{T} props=C07,C10,C04,C05,C20 mode=direct unwind=70
for T in nil f32 f64 array map bin binbyte ts:
  job entry=h_read_{T} props=C07,C10,C04,C05,C20 mode=direct unwind=70
job entry=h_read_str props=C07,C10,C04,C05,C20 mode=direct loops=1 unwind=70
job entry=h_kf_read_ts96 props=C07 mode=direct unwind=70 kf=KF-C07-ts96-order canary=off
job entry=h_kf_read_ts_nanos props=C07 mode=direct unwind=70 kf=KF-C07-ts-nanos-range canary=off
job entry=h_value_type props=C07,C10,C20 mode=direct unwind=70
job entry=h_position props=C03,C10 mode=direct unwind=70
job entry=h_skip props=C05 mode=direct unwind=70
@*/
