/* job declarations only: bounded native stand-in for the 16/32-bit instantiations of CEncodedStreamReader (native.cpp) */
/*@jobs
job entry=esr_widths props=C13,C10 mode=native bounded=every_truncation_of_a_sample_document_(about_500_code_points;_thorough:_1500)_in_5_encodings_x_BOM/no_BOM_x_2_error_policies desc=the_same_byte_stream_read_through_the_char,_char16_t_and_char32_t_targets_gives_the_same_text_and_the_same_final_result canary=off
@*/
