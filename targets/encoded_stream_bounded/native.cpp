// Bounded stand-in (NOT a proof): CEncodedStreamReader<char16_t, 256> and <char32_t, 256> (convert_utf.h) are not under contract (only the <char, 256>
// instantiation is, target encoded_stream_reader).  Relational check on the REAL code: the same byte stream read through the three target widths must
// give the same text (compared as UTF-32 after transcoding with the library's own, separately proved, decoders) and the same final result code -
// for every truncation of sample documents in UTF-8 / UTF-16LE / UTF-16BE / UTF-32LE / UTF-32BE, with and without BOM, under both error policies.
// For a UTF-8 source the <char> reader passes the bytes through unvalidated, so that case compares only the 16- and 32-bit targets.
#include "bitserializer/convert.h"
#include <cstdio>
#include <cstring>
#include <sstream>
#include <string>
using namespace BitSerializer; using namespace BitSerializer::Convert::Utf;
static long evals = 0, fails = 0; static const char* cur;
static void fail(const std::string& w) { if (fails++ < 5) printf("FAIL %s %s\n", cur, w.c_str()); }
template <class C> struct Read { std::basic_string<C> text; int last = 0; int type = -1; };
template <class C> static Read<C> read_all(const std::string& bytes, UtfEncodingErrorPolicy pol) { Read<C> r; std::istringstream is(bytes); CEncodedStreamReader<C, 256> rd(is, pol); r.type = (int)rd.GetSourceUtfType(); int guard = 0;
  while (!rd.IsEnd() && guard++ < 100000) { r.last = (int)rd.ReadChunk(r.text); if (r.last != (int)EncodedStreamReadResult::Success) break; } if (guard >= 100000) r.last = -99; return r; }
static std::u32string to32(const std::string& s) { std::u32string o; Utf8::Decode(s.data(), s.data() + s.size(), o); return o; }
static std::u32string to32(const std::u16string& s) { std::u32string o; Utf16::Decode(s.data(), s.data() + s.size(), o); return o; }
static std::string enc(const std::u32string& t, int kind, bool bom) { std::string o; auto put16 = [&](unsigned v, bool be) { if (be) { o += (char)(v >> 8); o += (char)v; } else { o += (char)v; o += (char)(v >> 8); } };
  auto put32 = [&](unsigned v, bool be) { for (int i = 0; i < 4; i++) o += (char)(v >> (be ? 24 - 8 * i : 8 * i)); };
  if (bom) { if (kind == 0) o += "\xEF\xBB\xBF"; else if (kind == 1) put16(0xFEFF, false); else if (kind == 2) put16(0xFEFF, true); else if (kind == 3) put32(0xFEFF, false); else put32(0xFEFF, true); }
  for (char32_t c : t) { if (kind == 0) { std::u32string one(1, c); std::string u; Utf8::Encode(one.data(), one.data() + 1, u); o += u; }
    else if (kind <= 2) { if (c >= 0x10000) { unsigned v = c - 0x10000; put16(0xD800 + (v >> 10), kind == 2); put16(0xDC00 + (v & 0x3FF), kind == 2); } else put16(c, kind == 2); }
    else put32(c, kind == 4); } return o; }
static void run(const char* name, bool thorough) { cur = name; evals = fails = 0; static const char* kinds[] = {"UTF-8", "UTF-16LE", "UTF-16BE", "UTF-32LE", "UTF-32BE"};
  std::u32string base = U"id,name,привет,世界,\U0001F600,café\n"; std::u32string doc; int reps = thorough ? 40 : 14; for (int i = 0; i < reps; i++) { doc += base; doc += (char32_t)(U'0' + i % 10); doc += (i % 3 == 0) ? U"\U00010348x" : U"yz€"; }
  for (int kind = 0; kind < 5; kind++) for (int bom = 0; bom < 2; bom++) { std::string full = enc(doc, kind, bom);
    for (size_t n = 0; n <= full.size(); n++) for (int p = 0; p < 2; p++) { auto pol = p ? UtfEncodingErrorPolicy::ThrowError : UtfEncodingErrorPolicy::Skip; std::string bytes = full.substr(0, n); ++evals;
      auto r8 = read_all<char>(bytes, pol); auto r16 = read_all<char16_t>(bytes, pol); auto r32 = read_all<char32_t>(bytes, pol);
      std::string where = std::string(kinds[kind]) + (bom ? "+BOM" : "") + " first " + std::to_string(n) + " bytes, policy " + (p ? "ThrowError" : "Skip");
      if (r16.type != r32.type || r8.type != r32.type) { fail(where + ": the target widths detect different encodings"); continue; }
      if (r16.last == -99 || r32.last == -99 || r8.last == -99) { fail(where + ": reading does not terminate"); continue; }
      if (r16.last != r32.last || to32(r16.text) != r32.text) { fail(where + ": char16_t and char32_t targets disagree (result " + std::to_string(r16.last) + " vs " + std::to_string(r32.last) + ", " + std::to_string(to32(r16.text).size()) + " vs " + std::to_string(r32.text.size()) + " code points)"); continue; }
      if (r32.type != 0 /* not a UTF-8 source */ && (r8.last != r32.last || to32(r8.text) != r32.text)) { fail(where + ": char and char32_t targets disagree (result " + std::to_string(r8.last) + " vs " + std::to_string(r32.last) + ", " + std::to_string(to32(r8.text).size()) + " vs " + std::to_string(r32.text.size()) + " code points)"); continue; } } }
  printf("RESULT %s evaluations=%ld failures=%ld range=every truncation of a %zu-code-point document (ASCII, Cyrillic, CJK, non-BMP) in 5 encodings x BOM/no BOM x 2 error policies, read through the char / char16_t / char32_t targets\n", name, evals, fails, doc.size()); }
int main(int argc, char** argv) { const char* w = argc > 1 ? argv[1] : ""; bool thorough = argc > 2 && !strcmp(argv[2], "thorough"); if (!strcmp(w, "esr_widths")) run("esr_widths", thorough); else { puts("unknown job"); return 2; } return 0; }
