/* MsgPack WRITE scopes (msgpack_archive.h:240-455) verified modularly against the writer interface contract (every IMsgPackWriter call
   raises and emits nothing, or emits exactly one complete MessagePack head/value - proved for both writers in msgpack_writer).
   C06 (container level): an array/map/binary scope never emits more entries than the count in its header: a write at index == declared
   size raises SerializationException(OutOfRange) and emits nothing; every other write emits exactly one entry (map: key then value, in that
   order) and advances the index by one; a child scope is created for exactly the count that was written into its header and starts at 0.
   C20: the scopes' constructors are noexcept - cxx2c generates a noexcept_escape obligation for anything that could raise inside them. */
#include "models/prelude.h"
#include "models/sv.h"
typedef struct { int _opaque; } std_variant_vstr_c8_vstr_wc_vstr_c16_vstr_c32;
typedef struct { int _opaque; } std_map_vstr_c8_vvec_vstr_c8_std_less_vstr_c8;
typedef struct { int id; } vstr_c8;
static inline vsv_c8 vstr_c8_conv_vsv_c8___k(const vstr_c8* s) { vsv_c8 v; v.data = (const char*)s; v.size = 3; return v; }   /* the key's characters: identified by the key object */
typedef struct { _Bool has; unsigned long size; void* writer; unsigned long index; } vopt_wscope;
typedef vopt_wscope vopt_CMsgPackWriteArrayScope_IMsgPackWriter; typedef vopt_wscope vopt_CMsgPackWriteObjectScope_IMsgPackWriter; typedef vopt_wscope vopt_CMsgPackWriteBinaryScope_IMsgPackWriter;
static inline _Bool vopt_w_has(const vopt_wscope* o) { return o->has; }
#define vopt_CMsgPackWriteArrayScope_IMsgPackWriter_has_value___k vopt_w_has
#define vopt_CMsgPackWriteObjectScope_IMsgPackWriter_has_value___k vopt_w_has
#define vopt_CMsgPackWriteBinaryScope_IMsgPackWriter_has_value___k vopt_w_has
#include "gen.h"
static vopt_wscope g_child; static unsigned g_children;
#define MAKE(T) static inline vopt_wscope vopt_##T##_make(struct T* t) { vopt_wscope o; o.has = 1; o.size = t->mSize; o.writer = t->mMsgPackWriter; o.index = t->mIndex; g_child = o; g_children++; return o; }
MAKE(CMsgPackWriteArrayScope_IMsgPackWriter) MAKE(CMsgPackWriteObjectScope_IMsgPackWriter) MAKE(CMsgPackWriteBinaryScope_IMsgPackWriter)
/* ---- writer interface contract ---- */
enum { W_VALUE = 1, W_KEY = 2, W_ARRAY = 3, W_MAP = 4, W_BIN = 5, W_BYTE = 6 };
static unsigned g_n; static int g_kind[3]; static unsigned long g_count[3]; static const void* g_keyobj;
static _Bool emit(int kind, unsigned long count) { if (nondet_bool()) { __verif_exc = EXC_SerializationException; __verif_exc_code = SerializationErrorCode_OutOfRange; return 0; } if (g_n < 3) { g_kind[g_n] = kind; g_count[g_n] = count; } g_n++; return 1; }
void IMsgPackWriter_WriteValue__i32(struct IMsgPackWriter* w, int v) { emit(W_VALUE, 0); }
void IMsgPackWriter_WriteValue__i64(struct IMsgPackWriter* w, long v) { emit(W_VALUE, 0); }
void IMsgPackWriter_WriteValue__vsv_c8(struct IMsgPackWriter* w, vsv_c8 v) { if (emit(v.data == (const char*)g_keyobj ? W_KEY : W_VALUE, 0)) {} }
void IMsgPackWriter_WriteBinary__c8(struct IMsgPackWriter* w, char c) { emit(W_BYTE, 0); }
void IMsgPackWriter_BeginArray__u64(struct IMsgPackWriter* w, unsigned long n) { emit(W_ARRAY, n); }
void IMsgPackWriter_BeginMap__u64(struct IMsgPackWriter* w, unsigned long n) { emit(W_MAP, n); }
void IMsgPackWriter_BeginBinary__u64(struct IMsgPackWriter* w, unsigned long n) { emit(W_BIN, n); }
#include "gen.c"
static struct IMsgPackWriter g_writer; static struct SerializationContext g_ctx; static vstr_c8 g_key;
static void ginit(void) { __verif_exc = 0; __verif_exc_code = 0; g_n = 0; g_children = 0; g_child.has = 0; g_keyobj = &g_key; }
#define SCOPE_INIT(T) struct T s; s.mMsgPackWriter = &g_writer; s.__base_TArchiveScope.mSerializationContext = &g_ctx; s.mSize = nondet_ulong(); s.mIndex = nondet_ulong(); __CPROVER_assume(s.mIndex <= s.mSize); unsigned long i0 = s.mIndex; ginit();
#define POST_FULL VERIF_ASSERT("C06", !(i0 == s.mSize) || (__verif_exc == EXC_SerializationException && __verif_exc_code == SerializationErrorCode_OutOfRange && g_n == 0 && s.mIndex == i0 && g_children == 0), "a write beyond the count declared in the container's header raises OutOfRange and emits nothing");
#define POST_INV VERIF_ASSERT("C06", s.mIndex <= s.mSize && (__verif_exc == 0 ? s.mIndex == i0 + 1 : 1), "the scope never holds more entries than declared; a successful write advances the index by exactly one");
/* array scope */
#define H_WARR(NAME, CALL, KIND, CHILD) \
void h_warr_##NAME(void) { SCOPE_INIT(CMsgPackWriteArrayScope_IMsgPackWriter) unsigned long n = nondet_ulong(); \
  _Bool ret = CALL; \
  POST_FULL POST_INV \
  VERIF_ASSERT("C06", __verif_exc != 0 || (ret && g_n == 1 && g_kind[0] == KIND && (!CHILD || g_count[0] == n)), "a successful write emits exactly one entry of the requested kind, a container header with the requested count"); \
  VERIF_ASSERT("C06", __verif_exc != 0 || g_children == (CHILD ? 1 : 0), "exactly one child scope is created for a container entry"); \
  VERIF_ASSERT("C06", !(CHILD && __verif_exc == 0) || (g_child.size == n && g_child.index == 0 && g_child.writer == &g_writer), "the child scope is created for exactly the count written into its header, starts empty and writes to the same writer"); \
  VERIF_ASSERT("C06,C20", __verif_exc == 0 || (g_children == 0 && s.mIndex == i0), "a failed write leaves the scope unchanged and creates no child scope"); \
  VERIF_CANARY(); }
static int g_i32; static vsv_c8 g_sv;
H_WARR(value_i32, verif_inst_warr_value_i32__rCMsgPackWriteArrayScope_IMsgPackWriter_ri32(&s, &g_i32), W_VALUE, 0)
H_WARR(value_sv, verif_inst_warr_value_sv__rCMsgPackWriteArrayScope_IMsgPackWriter_rvsv_c8(&s, &g_sv), W_VALUE, 0)
H_WARR(open_array, verif_inst_warr_open_array__rCMsgPackWriteArrayScope_IMsgPackWriter_u64(&s, n), W_ARRAY, 1)
H_WARR(open_object, verif_inst_warr_open_object__rCMsgPackWriteArrayScope_IMsgPackWriter_u64(&s, n), W_MAP, 1)
H_WARR(open_binary, verif_inst_warr_open_binary__rCMsgPackWriteArrayScope_IMsgPackWriter_u64(&s, n), W_BIN, 1)
/* object scope: key first, then the value / container header */
#define H_WOBJ(NAME, CALL, KIND, CHILD) \
void h_wobj_##NAME(void) { SCOPE_INIT(CMsgPackWriteObjectScope_IMsgPackWriter) unsigned long n = nondet_ulong(); \
  _Bool ret = CALL; \
  POST_FULL POST_INV \
  VERIF_ASSERT("C06", __verif_exc != 0 || (ret && g_n == 2 && g_kind[0] == W_KEY && g_kind[1] == KIND && (!CHILD || g_count[1] == n)), "a successful write emits exactly the key followed by one value / container header with the requested count"); \
  VERIF_ASSERT("C06", !(CHILD && __verif_exc == 0) || (g_children == 1 && g_child.size == n && g_child.index == 0 && g_child.writer == &g_writer), "the child scope is created for exactly the count written into its header, starts empty and writes to the same writer"); \
  VERIF_ASSERT("C06,C20", __verif_exc == 0 || (g_children == 0 && s.mIndex == i0), "a failed write leaves the scope unchanged and creates no child scope"); \
  VERIF_CANARY(); }
H_WOBJ(value_i32, verif_inst_wobj_value_i32__rCMsgPackWriteObjectScope_IMsgPackWriter_rkvstr_c8_ri32(&s, &g_key, &g_i32), W_VALUE, 0)
H_WOBJ(open_array, verif_inst_wobj_open_array__rCMsgPackWriteObjectScope_IMsgPackWriter_rkvstr_c8_u64(&s, &g_key, n), W_ARRAY, 1)
H_WOBJ(open_object, verif_inst_wobj_open_object__rCMsgPackWriteObjectScope_IMsgPackWriter_rkvstr_c8_u64(&s, &g_key, n), W_MAP, 1)
H_WOBJ(open_binary, verif_inst_wobj_open_binary__rCMsgPackWriteObjectScope_IMsgPackWriter_rkvstr_c8_u64(&s, &g_key, n), W_BIN, 1)
void h_wbin_value(void) { SCOPE_INIT(CMsgPackWriteBinaryScope_IMsgPackWriter) unsigned char b = nondet_uchar();
  _Bool ret = verif_inst_wbin_value__rCMsgPackWriteBinaryScope_IMsgPackWriter_ru8(&s, &b);
  POST_FULL POST_INV
  VERIF_ASSERT("C06", __verif_exc != 0 || (ret && g_n == 1 && g_kind[0] == W_BYTE), "a successful write emits exactly one byte of the binary payload");
  VERIF_CANARY(); }
#define H_WROOT(NAME, CALL, KIND, CHILD) \
void h_wroot_##NAME(void) { struct MsgPackWriteRootScope s; s.mMsgPackWriter = &g_writer; s.__base_TArchiveScope.mSerializationContext = &g_ctx; unsigned long n = nondet_ulong(); ginit(); \
  _Bool ret = CALL; \
  VERIF_ASSERT("C06", __verif_exc != 0 || (ret && g_n == 1 && g_kind[0] == KIND && (!CHILD || (g_count[0] == n && g_children == 1 && g_child.size == n && g_child.index == 0 && g_child.writer == &g_writer))), "the root scope emits exactly one value / container header and creates the child scope for exactly the written count"); \
  VERIF_ASSERT("C06,C20", __verif_exc == 0 || g_children == 0, "a failed write creates no child scope"); \
  VERIF_CANARY(); }
static long g_i64;
H_WROOT(value_i64, verif_inst_wroot_value_i64__rMsgPackWriteRootScope_ri64(&s, &g_i64), W_VALUE, 0)
H_WROOT(open_array, verif_inst_wroot_open_array__rMsgPackWriteRootScope_u64(&s, n), W_ARRAY, 1)
H_WROOT(open_object, verif_inst_wroot_open_object__rMsgPackWriteRootScope_u64(&s, n), W_MAP, 1)
H_WROOT(open_binary, verif_inst_wroot_open_binary__rMsgPackWriteRootScope_u64(&s, n), W_BIN, 1)
/*@jobs
for H in warr_value_i32 warr_value_sv warr_open_array warr_open_object warr_open_binary wobj_value_i32 wobj_open_array wobj_open_object wobj_open_binary wbin_value wroot_value_i64 wroot_open_array wroot_open_object wroot_open_binary:
  job entry=h_{H} props=C06,C20,C02 mode=direct unwind=3
@*/
