// extraction TU: MsgPack WRITE scopes of include/bitserializer/msgpack_archive.h over the writer interface (IMsgPackWriter, virtual:
// every writer call is a contract-only callee whose contract is proved for both writers in target msgpack_writer).
#include "bitserializer/msgpack_archive.h"
#include <string>
namespace verif_inst {
using namespace BitSerializer; using namespace BitSerializer::MsgPack::Detail;
using WArr = CMsgPackWriteArrayScope<IMsgPackWriter>; using WObj = CMsgPackWriteObjectScope<IMsgPackWriter>; using WBin = CMsgPackWriteBinaryScope<IMsgPackWriter>;
bool warr_value_i32(WArr& s, int& v) { return s.SerializeValue(v); }
bool warr_value_sv(WArr& s, std::string_view& v) { return s.SerializeValue(v); }
bool warr_open_array(WArr& s, size_t n) { return s.OpenArrayScope(n).has_value(); }
bool warr_open_object(WArr& s, size_t n) { return s.OpenObjectScope(n).has_value(); }
bool warr_open_binary(WArr& s, size_t n) { return s.OpenBinaryScope(n).has_value(); }
bool wobj_value_i32(WObj& s, const std::string& key, int& v) { return s.SerializeValue(key, v); }
bool wobj_open_array(WObj& s, const std::string& key, size_t n) { return s.OpenArrayScope(key, n).has_value(); }
bool wobj_open_object(WObj& s, const std::string& key, size_t n) { return s.OpenObjectScope(key, n).has_value(); }
bool wobj_open_binary(WObj& s, const std::string& key, size_t n) { return s.OpenBinaryScope(key, n).has_value(); }
bool wbin_value(WBin& s, unsigned char& v) { return s.SerializeValue(v); }
bool wroot_value_i64(MsgPackWriteRootScope& s, long& v) { return s.SerializeValue(v); }
bool wroot_open_array(MsgPackWriteRootScope& s, size_t n) { return s.OpenArrayScope(n).has_value(); }
bool wroot_open_object(MsgPackWriteRootScope& s, size_t n) { return s.OpenObjectScope(n).has_value(); }
bool wroot_open_binary(MsgPackWriteRootScope& s, size_t n) { return s.OpenBinaryScope(n).has_value(); }
}
