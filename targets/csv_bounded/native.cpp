// Bounded stand-in (NOT a proof) for C09/C10 on the CSV codecs: the REAL writers and readers of src/csv are evaluated exhaustively over all
// strings up to a stated length over the alphabet { a , " CR LF } (every structural character of RFC 4180 plus one ordinary character)
// and compared with an independent RFC 4180 reference parser written from the RFC grammar.
//   write : every pair of fields (len <= 5) written by CCsvStringWriter / CCsvStreamWriter is parsed by the reference parser to the same fields;
//           both writers produce identical bytes.
//   read  : every document (len <= 8, preceded by the header line "h1,h2" or alone) that the reference parser accepts with a constant field
//           count is read to the same rows by CCsvStringReader and CCsvStreamReader (sequential and by-key access); on every other
//           document the two readers agree on accept/reject.
#include "../../../repo/src/csv/csv_writers.cpp"
#include "../../../repo/src/csv/csv_readers.cpp"
#include "../../../repo/src/csv/csv_archive.cpp"
#include <sstream>
#include <cstdio>
#include <cstring>
#include <string>
#include <vector>
#include <optional>
#include <functional>
using namespace BitSerializer; using namespace BitSerializer::Csv::Detail;
typedef std::vector<std::vector<std::string>> Table;
static const char ALPHA[] = {'a', ',', '"', '\r', '\n'};
// ---- RFC 4180 reference: file = record *(CRLF record) [CRLF]; field = escaped / non-escaped; LF alone accepted as line break (the library documents it)
static std::optional<Table> refParse(const std::string& s, char sep) {
  Table t; std::vector<std::string> row; size_t i = 0, n = s.size(); if (n == 0) return t;
  while (true) {
    std::string f;
    if (i < n && s[i] == '"') { ++i; bool closed = false;
      while (i < n) { if (s[i] == '"') { if (i + 1 < n && s[i + 1] == '"') { f += '"'; i += 2; } else { ++i; closed = true; break; } } else f += s[i++]; }
      if (!closed) return std::nullopt;
    } else { while (i < n && s[i] != sep && s[i] != '\r' && s[i] != '\n') { if (s[i] == '"') return std::nullopt; f += s[i++]; } }
    row.push_back(f);
    if (i == n) { t.push_back(row); return t; }
    if (s[i] == sep) { ++i; continue; }
    if (s[i] == '\r') { if (i + 1 < n && s[i + 1] == '\n') i += 2; else return std::nullopt; } else if (s[i] == '\n') ++i; else return std::nullopt;
    t.push_back(row); row.clear();
    if (i == n) return t;                     // final line break: no further (empty) record
  }
}
template <class R> static std::optional<Table> libRead(R& r, size_t cols, bool& threw) {
  Table t; threw = false;
  try { while (r.ParseNextRow()) { std::vector<std::string> row; for (size_t c = 0; c < cols; c++) { std::string_view v; r.ReadValue(v); row.emplace_back(v); } t.push_back(row); if (t.size() > 64) break; } }
  catch (const std::exception&) { threw = true; return std::nullopt; }
  return t;
}
static long evals = 0, fails = 0; static const char* cur;
static std::string vis(const std::string& s) { std::string r; for (char c : s) r += c == '\r' ? "\\r" : c == '\n' ? "\\n" : std::string(1, c); return r; }
static void fail(const std::string& w) { if (fails++ < 5) printf("FAIL %s %s\n", cur, w.c_str()); }
static void gen(std::string& s, size_t maxLen, const std::function<void(const std::string&)>& f) { f(s); if (s.size() == maxLen) return; for (char c : ALPHA) { s.push_back(c); gen(s, maxLen, f); s.pop_back(); } }

static void jobWrite(size_t maxLen) {
  cur = "csv_write"; std::vector<std::string> all; std::string s; gen(s, maxLen, [&](const std::string& x) { all.push_back(x); });
  for (const auto& a : all) for (const auto& b : all) { if (a.size() + b.size() > maxLen + 1) continue; ++evals;
    std::string mem; std::ostringstream os;
    try { { CCsvStringWriter w(mem, true, ','); w.WriteValue("h1", a); w.WriteValue("h2", b); w.NextLine(); w.WriteValue("h1", b); w.WriteValue("h2", a); w.NextLine(); }
          { StreamOptions so; so.writeBom = false; so.encoding = Convert::Utf::UtfType::Utf8; CCsvStreamWriter w(os, true, ',', Convert::Utf::UtfEncodingErrorPolicy::Skip, so); w.WriteValue("h1", a); w.WriteValue("h2", b); w.NextLine(); w.WriteValue("h1", b); w.WriteValue("h2", a); w.NextLine(); } }
    catch (const std::exception& e) { fail("writer raised for fields '" + vis(a) + "','" + vis(b) + "': " + e.what()); continue; }
    if (os.str() != mem) { fail("stream and memory output differ for '" + vis(a) + "','" + vis(b) + "'"); continue; }
    auto t = refParse(mem, ','); Table exp = {{"h1", "h2"}, {a, b}, {b, a}};
    if (!t || *t != exp) fail("fields '" + vis(a) + "','" + vis(b) + "' written as '" + vis(mem) + "' which an RFC 4180 parser " + (t ? "reads differently" : "rejects")); }
  printf("RESULT csv_write evaluations=%ld failures=%ld range=all pairs of fields over {a , \" CR LF} with total length <= %zu, both writers\n", evals, fails, maxLen + 1);
}
static void jobRead(size_t maxLen, bool withHeader) {
  cur = withHeader ? "csv_read_header" : "csv_read_plain"; std::string s;
  gen(s, maxLen, [&](const std::string& body) { ++evals;
    std::string doc = withHeader ? "h1,h2\r\n" + body : body; auto ref = refParse(doc, ',');
    bool uniform = ref && !ref->empty(); size_t cols = uniform ? (*ref)[0].size() : 1; if (uniform) for (auto& r : *ref) if (r.size() != cols) uniform = false;
    if (withHeader && uniform && cols != 2) uniform = false;
    std::optional<Table> ts, tt; bool e1 = false, e2 = false;
    try { CCsvStringReader r(doc, withHeader, ','); ts = libRead(r, cols, e1); } catch (const std::exception&) { e1 = true; }
    try { std::istringstream is(doc); CCsvStreamReader r(is, withHeader, ','); tt = libRead(r, cols, e2); } catch (const std::exception&) { e2 = true; }
    if (uniform) { Table exp(ref->begin() + (withHeader ? 1 : 0), ref->end());
      if (e1 || !ts || *ts != exp) { fail("memory reader: conformant document '" + vis(doc) + "' " + (e1 ? "rejected" : "read differently")); return; }
      if (e2 || !tt || *tt != exp) { fail("stream reader: conformant document '" + vis(doc) + "' " + (e2 ? "rejected" : "read differently")); return; }
      if (withHeader && !exp.empty()) {   // by-key access in reverse column order on the first data row
        try { CCsvStringReader r(doc, true, ','); std::istringstream is(doc); CCsvStreamReader q(is, true, ','); r.ParseNextRow(); q.ParseNextRow(); std::string_view v; std::string a, b, c, d;   /* a returned view is valid until the next read: copy at once */
          bool k1 = r.ReadValue("h2", v); a = v; k1 = k1 && r.ReadValue("h1", v); b = v; bool k2 = q.ReadValue("h2", v); c = v; k2 = k2 && q.ReadValue("h1", v); d = v;
          if (!k1 || a != exp[0][1] || b != exp[0][0]) fail("memory reader by key: '" + vis(doc) + "'");
          else if (!k2 || c != exp[0][1] || d != exp[0][0]) fail("stream reader by key: '" + vis(doc) + "'"); }
        catch (const std::exception& e) { fail("by-key read raised on conformant '" + vis(doc) + "': " + e.what()); } }
    } else if (e1 != e2) fail("readers disagree on '" + vis(doc) + "': memory " + (e1 ? "rejects" : "accepts") + ", stream " + (e2 ? "rejects" : "accepts"));
  });
  printf("RESULT %s evaluations=%ld failures=%ld range=all documents over {a , \" CR LF} of length <= %zu%s, both readers, sequential and by-key\n", cur, evals, fails, maxLen, withHeader ? " after the header line h1,h2" : "");
}
int main(int argc, char** argv) {
  const char* which = argc > 1 ? argv[1] : ""; bool thorough = argc > 2 && !strcmp(argv[2], "thorough");
  if (!strcmp(which, "csv_write")) jobWrite(thorough ? 5 : 4);
  else if (!strcmp(which, "csv_read_header")) jobRead(thorough ? 9 : 8, true);
  else if (!strcmp(which, "csv_read_plain")) jobRead(thorough ? 9 : 8, false);
  else { puts("unknown job"); return 2; }
  return 0;
}
