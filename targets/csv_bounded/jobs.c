/* job declarations only: the checks of this target are native bounded stand-ins (native.cpp) */
/*@jobs
job entry=csv_write props=C09,C10,C01 mode=native bounded=all_pairs_of_fields_over_{a_,_"_CR_LF}_with_total_length_<=5_(thorough_6),_both_writers desc=every_field_content_is_written_so_that_an_independent_RFC_4180_parser_recovers_exactly_the_original_fields;_stream_and_memory_output_identical canary=off
job entry=csv_read_header props=C09,C10,C03 mode=native bounded=all_documents_of_length_<=8_(thorough_9)_over_{a_,_"_CR_LF}_after_a_header_line desc=every_RFC_4180_conformant_table_is_read_to_the_same_rows_by_the_memory_and_the_stream_reader,_sequentially_and_by_key;_the_readers_agree_on_every_other_document canary=off
job entry=csv_read_plain props=C09,C10 mode=native bounded=all_documents_of_length_<=8_(thorough_9)_over_{a_,_"_CR_LF}_without_header desc=every_RFC_4180_conformant_table_is_read_to_the_same_rows_by_the_memory_and_the_stream_reader;_the_readers_agree_on_every_other_document canary=off
@*/
