// extraction TU: the real translation unit of the CSV writers (CCsvStringWriter::WriteValue and NextLine; WriteEscapedValue is contract-only here, proved in csv_escape)
#include "../../../repo/src/csv/csv_writers.cpp"
