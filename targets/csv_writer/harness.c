/* CCsvStringWriter::WriteValue / NextLine (src/csv/csv_writers.cpp:66-122) as a state machine over two append-only texts (the output and the
   current row), from an ARBITRARY writer state; WriteEscapedValue is contract-only (its RFC 4180 quoting is proved in csv_escape).
   C09 (writer, record level): a field is appended to the current row as [separator unless first] + escaped(value); in the first row with a
   header the key goes to the output the same way; a record is committed as header-CRLF (first row only) + the row's text + CRLF, then the row is
   cleared; a record whose field count differs from the first record's is refused with OutOfRange and NOTHING of it reaches the output. */
#include "models/prelude.h"
#include "models/sv.h"
enum { EV_PUSH = 1, EV_ESC = 2, EV_APPEND_ROW = 3 };
typedef struct { unsigned n; int kind[6]; char ch[6]; const char* src[6]; unsigned clears; size_t size; } vstr_c8;      /* append-only event log + a symbolic size */
static inline void ev(vstr_c8* s, int kind, char c, const char* src) { if (s->n < 6) { s->kind[s->n] = kind; s->ch[s->n] = c; s->src[s->n] = src; } s->n++; }
static inline void vstr_c8_push_back__c8(vstr_c8* s, char c) { ev(s, EV_PUSH, c, 0); s->size++; }
static vstr_c8* g_row;
static inline vstr_c8* vstr_c8_append__rkvstr_c8(vstr_c8* s, const vstr_c8* o) { ev(s, EV_APPEND_ROW, 0, (const char*)o); s->size += o->size; return s; }
static inline void vstr_c8_clear(vstr_c8* s) { s->clears++; s->size = 0; s->n = 0; }
static inline void vstr_c8_reserve__u64(vstr_c8* s, unsigned long n) { (void)s; (void)n; }
static inline size_t vstr_c8_size___k(const vstr_c8* s) { return s->size; }
typedef struct { int _opaque; } vostream;
typedef struct { int _opaque; } vstr_c16; typedef struct { int _opaque; } vstr_c32;
typedef struct { int _opaque; } std_variant_vpair_Utf8_vstr_c8_vpair_Utf16Le_vstr_c16_vpair_Utf16Be_vstr_c16_vpair_Utf32Le_vstr_c32_vpair_Utf32Be_vstr_c32;
static inline _Bool vstr_c8_empty___k(const vstr_c8* s) { return s->size == 0; }
#include "gen.h"
/* contract of CEncodedStreamWriter::Write (proved in encoded_stream_writer): the whole text goes to the stream, or an encoding error is reported; every call is logged */
static unsigned g_sw_n; static const vstr_c8* g_sw_str[3]; static unsigned g_sw_events[3]; static int g_sw_fail_at;
int CEncodedStreamWriter_Write_c8_valloc_c8__rkvstr_c8(struct CEncodedStreamWriter* self, const vstr_c8* str) { (void)self; if (g_sw_n < 3) { g_sw_str[g_sw_n] = str; g_sw_events[g_sw_n] = str->n; } int rc = ((int)g_sw_n == g_sw_fail_at) ? 1 : 0; g_sw_n++; return rc; }
void WriteEscapedValue__rkvsv_c8_rvstr_c8_kc8(const vsv_c8* v, vstr_c8* out, char sep) { ev(out, EV_ESC, sep, v->data); out->size += nondet_uchar(); }
#include "gen.c"
static char g_keytxt[1], g_valtxt[1];
#define W_INIT struct CCsvStringWriter w; vstr_c8 out; out.n = 0; out.clears = 0; out.size = nondet_size_t(); __CPROVER_assume(out.size < ((size_t)1 << 50)); w.mOutputString = &out; w.mCurrentRow.n = 0; w.mCurrentRow.clears = 0; w.mCurrentRow.size = nondet_size_t(); __CPROVER_assume(w.mCurrentRow.size < ((size_t)1 << 50)); \
  w.mWithHeader = nondet_bool(); w.mSeparator = nondet_char(); w.mRowIndex = nondet_ulong(); w.mValueIndex = nondet_ulong(); w.mPrevValuesCount = nondet_ulong(); w.mEstimatedSize = nondet_ulong(); __CPROVER_assume(w.mRowIndex < (1ul << 60) && w.mValueIndex < (1ul << 60) && w.mEstimatedSize < (1ul << 20)); __verif_exc = 0;
void h_write_value(void) { W_INIT vsv_c8 key; key.data = g_keytxt; key.size = 1; vsv_c8 val; val.data = g_valtxt; val.size = 1; unsigned long idx0 = w.mValueIndex;
  CCsvStringWriter_WriteValue__rkvsv_c8_vsv_c8(&w, &key, val);
  _Bool hdr = w.mRowIndex == 0 && w.mWithHeader; unsigned lead = idx0 ? 1 : 0;
  VERIF_ASSERT("C09", __verif_exc == 0 && w.mValueIndex == idx0 + 1, "writing a field raises nothing and counts the field");
  VERIF_ASSERT("C09", w.mCurrentRow.n == lead + 1 && (!lead || (w.mCurrentRow.kind[0] == EV_PUSH && w.mCurrentRow.ch[0] == w.mSeparator)) && w.mCurrentRow.kind[lead] == EV_ESC && w.mCurrentRow.src[lead] == g_valtxt && w.mCurrentRow.ch[lead] == w.mSeparator, "the current row receives the separator (unless it is the first field) followed by the escaped value, escaped for this writer's separator");
  VERIF_ASSERT("C09", hdr ? (out.n == lead + 1 && (!lead || (out.kind[0] == EV_PUSH && out.ch[0] == w.mSeparator)) && out.kind[lead] == EV_ESC && out.src[lead] == g_keytxt && out.ch[lead] == w.mSeparator) : out.n == 0, "in the first record of a table with header the key is written to the header line the same way; otherwise the output is not touched by a field");
  VERIF_CANARY(); }
void h_next_line(void) { W_INIT unsigned long row0 = w.mRowIndex, idx0 = w.mValueIndex, prev0 = w.mPrevValuesCount;
  CCsvStringWriter_NextLine(&w);
  _Bool first = row0 == 0; _Bool mismatch = !first && idx0 != prev0; unsigned h = (first && w.mWithHeader) ? 2 : 0;
  VERIF_ASSERT("C09,C20", mismatch ? (__verif_exc == EXC_SerializationException && __verif_exc_code == SerializationErrorCode_OutOfRange && out.n == 0 && w.mRowIndex == row0) : __verif_exc == 0, "a record whose number of fields differs from the first record's is refused with OutOfRange and nothing of it reaches the output; every other record is accepted");
  VERIF_ASSERT("C09", mismatch || (out.n == h + 3 && (!h || (out.kind[0] == EV_PUSH && out.ch[0] == '\r' && out.kind[1] == EV_PUSH && out.ch[1] == '\n')) && out.kind[h] == EV_APPEND_ROW && out.src[h] == (const char*)&w.mCurrentRow && out.kind[h + 1] == EV_PUSH && out.ch[h + 1] == '\r' && out.kind[h + 2] == EV_PUSH && out.ch[h + 2] == '\n'),
     "a record is committed as [CRLF ending the header line, first record only] + the row's text + CRLF, in this order, nothing else");
  VERIF_ASSERT("C09", mismatch || (w.mRowIndex == row0 + 1 && w.mValueIndex == 0 && w.mCurrentRow.clears == 1 && w.mCurrentRow.size == 0 && w.mPrevValuesCount == (first ? idx0 : prev0)), "after a record the row buffer is empty, the field counter restarts and the first record's field count is remembered");
  VERIF_CANARY(); }
/* ---- CCsvStreamWriter (src/csv/csv_writers.cpp:124-190): the same record protocol, header and row are sent through the encoding stream writer ---- */
#define SW_INIT struct CCsvStreamWriter w; w.mCsvHeader.n = 0; w.mCsvHeader.clears = 0; w.mCsvHeader.size = nondet_size_t(); __CPROVER_assume(w.mCsvHeader.size < ((size_t)1 << 50)); w.mCurrentRow.n = 0; w.mCurrentRow.clears = 0; w.mCurrentRow.size = nondet_size_t(); __CPROVER_assume(w.mCurrentRow.size < ((size_t)1 << 50)); \
  w.mWithHeader = nondet_bool(); w.mSeparator = nondet_char(); w.mRowIndex = nondet_ulong(); w.mValueIndex = nondet_ulong(); w.mPrevValuesCount = nondet_ulong(); __CPROVER_assume(w.mRowIndex < (1ul << 60) && w.mValueIndex < (1ul << 60)); __verif_exc = 0; g_sw_n = 0; g_sw_fail_at = nondet_int();
void h_sw_write_value(void) { SW_INIT vsv_c8 key; key.data = g_keytxt; key.size = 1; vsv_c8 val; val.data = g_valtxt; val.size = 1; unsigned long idx0 = w.mValueIndex;
  CCsvStreamWriter_WriteValue__rkvsv_c8_vsv_c8(&w, &key, val);
  _Bool hdr = w.mRowIndex == 0 && w.mWithHeader; unsigned lead = idx0 ? 1 : 0; vstr_c8* H = &w.mCsvHeader; vstr_c8* R = &w.mCurrentRow;
  VERIF_ASSERT("C09,C10", __verif_exc == 0 && w.mValueIndex == idx0 + 1 && g_sw_n == 0, "writing a field raises nothing, counts the field and sends nothing to the stream yet");
  VERIF_ASSERT("C09,C10", R->n == lead + 1 && (!lead || (R->kind[0] == EV_PUSH && R->ch[0] == w.mSeparator)) && R->kind[lead] == EV_ESC && R->src[lead] == g_valtxt && R->ch[lead] == w.mSeparator, "the field is appended to the current row as [separator unless it is the record's first field - also when the fields before it were empty] + escaped(value), as the in-memory writer does");
  VERIF_ASSERT("C09,C10", hdr ? (H->n == lead + 1 && (!lead || (H->kind[0] == EV_PUSH && H->ch[0] == w.mSeparator)) && H->kind[lead] == EV_ESC && H->src[lead] == g_keytxt && H->ch[lead] == w.mSeparator) : H->n == 0, "in the first record of a table with header the key is appended to the header line the same way; otherwise the header line is not touched");
  VERIF_CANARY(); }
void h_sw_next_line(void) { SW_INIT unsigned long row0 = w.mRowIndex, idx0 = w.mValueIndex, prev0 = w.mPrevValuesCount; vstr_c8* H = &w.mCsvHeader; vstr_c8* R = &w.mCurrentRow;
  CCsvStreamWriter_NextLine(&w);
  _Bool first = row0 == 0; _Bool mismatch = !first && idx0 != prev0; unsigned h = (first && w.mWithHeader) ? 1 : 0; _Bool enc_fail = !mismatch && g_sw_fail_at >= 0 && (unsigned)g_sw_fail_at <= h;
  VERIF_ASSERT("C09,C20", mismatch ? (__verif_exc == EXC_SerializationException && __verif_exc_code == SerializationErrorCode_OutOfRange && g_sw_n == 0 && w.mRowIndex == row0) : 1, "a record whose number of fields differs from the first record's is refused with OutOfRange and nothing of it reaches the stream");
  VERIF_ASSERT("C09,C20", mismatch || (enc_fail ? (__verif_exc == EXC_SerializationException && __verif_exc_code == SerializationErrorCode_UtfEncodingError && w.mRowIndex == row0) : __verif_exc == 0), "an encoding error reported by the stream writer becomes SerializationException(UtfEncodingError) and the record is not counted; otherwise nothing is raised");
  VERIF_ASSERT("C09,C10", mismatch || !h || (g_sw_n >= 1 && g_sw_str[0] == H && g_sw_events[0] == 2 && H->kind[0] == EV_PUSH && H->ch[0] == '\r' && H->kind[1] == EV_PUSH && H->ch[1] == '\n'), "first record of a table with header: the header line, ended by CRLF, is sent first");
  VERIF_ASSERT("C09,C10", mismatch || enc_fail || (g_sw_n == h + 1 && g_sw_str[h] == R && g_sw_events[h] == 2 && R->clears == 1), "then exactly the row's text ended by CRLF is sent, once, and the row buffer is cleared afterwards");
  VERIF_ASSERT("C09", mismatch || enc_fail || (w.mRowIndex == row0 + 1 && w.mValueIndex == 0 && R->size == 0 && w.mPrevValuesCount == (first ? idx0 : prev0)), "after a record the row buffer is empty, the field counter restarts and the first record's field count is remembered");
  VERIF_CANARY(); }
/*@jobs
job entry=h_sw_write_value props=C09,C10,C02 mode=direct unwind=3
job entry=h_sw_next_line props=C09,C10,C20,C02 mode=direct unwind=3
job entry=h_write_value props=C09,C02 mode=direct unwind=3
job entry=h_next_line props=C09,C20,C02 mode=direct unwind=3
@*/
