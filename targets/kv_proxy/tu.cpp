// extraction TU: KeyValueProxy::SplitAndSerialize (key_value_proxy.h) - the place where a field is loaded and its validators are invoked -
// instantiated over an abstract LOAD object scope; the validators' call operators are contract-only (proved in target `validators`),
// SerializationContext::AddValidationError is contract-only (proved in target `validation_context`).
#include "bitserializer/bit_serializer.h"
#include "bitserializer/serialization_detail/key_value_proxy.h"
#include <string>
namespace verif_inst {
using namespace BitSerializer;
class AbsLoadObjectScope : public TArchiveScope<SerializeMode::Load> {
public:
  using key_type = std::string;
  using supported_key_types = TSupportedKeyTypes<std::string>;
  static constexpr char path_separator = '/';
  explicit AbsLoadObjectScope(SerializationContext& ctx) : TArchiveScope<SerializeMode::Load>(ctx) {}
  std::string GetPath() const;
  bool SerializeValue(const std::string& key, int& value);
};
// three validators of three different kinds on one field
void load_field_3v(AbsLoadObjectScope& scope, KeyValue<const std::string&, int&, Required, Range<int>, Range<int>>&& kv) { KeyValueProxy::SplitAndSerialize(scope, std::move(kv)); }
void load_field_0v(AbsLoadObjectScope& scope, KeyValue<const std::string&, int&>&& kv) { KeyValueProxy::SplitAndSerialize(scope, std::move(kv)); }
}
