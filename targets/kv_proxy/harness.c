/* KeyValueProxy::SplitAndSerialize<LoadScope, KeyValue<key, int&, Required, Range<int>, Range<int>>> (key_value_proxy.h:19-52) - where a field
   is loaded and its validators are invoked.  Modular: the scope's SerializeValue / GetPath, the validators' call operators (proved in
   `validators`) and SerializationContext::AddValidationError (proved in `validation_context`) are contract-only callees; strings are
   symbolic terms (path, key, path + '/' + key, message k) with a moved-from state, std::tuple is translated structurally and
   std::apply becomes a direct call.
   C17: the field is loaded exactly once; then EVERY validator is invoked exactly once, in declaration order, on the field's own value and
   the field's own 'loaded' result; every failing validator adds exactly its message under the field's full path <scope path>/<key>
   (also the 2nd and 3rd failure of the same field); nothing is added for passing validators; an exception stops the chain and propagates. */
#include "models/prelude.h"
typedef struct { int _opaque; } std_variant_vstr_c8_vstr_wc_vstr_c16_vstr_c32;
typedef struct { int _opaque; } std_map_vstr_c8_vvec_vstr_c8_std_less_vstr_c8;
enum { S_EMPTY = 0, S_PATH = 1, S_KEY = 2, S_KEYSTR = 3, S_PATH_SEP = 4, S_FULL = 5, S_MSG0 = 10, S_OTHER = 99 };
typedef struct { int id; } vstr_c8;
typedef struct { _Bool has; vstr_c8 v; } vopt_vstr_c8;
static inline _Bool vopt_vstr_c8_conv_b___k(const vopt_vstr_c8* o) { return o->has; }
static inline vstr_c8* vopt_vstr_c8_op_star(vopt_vstr_c8* o) { __CPROVER_assert(o->has, "MODEL: optional::operator* on an engaged optional (UB otherwise)"); return &o->v; }
/* the rest of std::optional<std::string>'s interface, so that harmless rewrites of the error-path code stay within the model */
static inline vopt_vstr_c8 vopt_vstr_c8_ctor(void) { vopt_vstr_c8 o; o.has = 0; o.v.id = S_EMPTY; return o; }
static inline _Bool vopt_vstr_c8_has_value___k(const vopt_vstr_c8* o) { return o->has; }
static inline vopt_vstr_c8* vopt_vstr_c8_op_assign_vstr_c8__xvstr_c8(vopt_vstr_c8* o, vstr_c8* s) { o->has = 1; o->v = *s; s->id = S_EMPTY; return o; }
static inline vstr_c8* vopt_vstr_c8_emplace_vstr_c8__xvstr_c8(vopt_vstr_c8* o, vstr_c8* s) { o->has = 1; o->v = *s; s->id = S_EMPTY; return &o->v; }
static inline vstr_c8* vopt_vstr_c8_value(vopt_vstr_c8* o) { if (!o->has) __verif_exc = 10 /* EXC_std_bad_optional_access */; return &o->v; }
static inline vstr_c8* vopt_vstr_c8_op_arrow(vopt_vstr_c8* o) { __CPROVER_assert(o->has, "MODEL: optional::operator-> on an engaged optional (UB otherwise)"); return &o->v; }
static inline vstr_c8 vstr_move(vstr_c8* p) { vstr_c8 r = *p; p->id = S_EMPTY; return r; }   /* libstdc++: a moved-from string is empty */
#define VERIF_MOVE_vstr_c8(p) vstr_move(p)
static inline vstr_c8 m_std_operator_op_plus_c8_std_char_traits_c8__xvstr_c8_c8(vstr_c8* a, char c) { vstr_c8 r; r.id = (a->id == S_PATH && c == '/') ? S_PATH_SEP : S_OTHER; a->id = S_EMPTY; return r; }
static inline vstr_c8 m_std_operator_op_plus_c8_std_char_traits_c8__xvstr_c8_xvstr_c8(vstr_c8* a, vstr_c8* b) { vstr_c8 r; r.id = (a->id == S_PATH_SEP && b->id == S_KEYSTR) ? S_FULL : S_OTHER; a->id = S_EMPTY; return r; }
#include "gen.h"
/* ---- ghost state ---- */
static int g_value; static vstr_c8 g_key; static unsigned g_loads; static _Bool g_load_raises, g_loaded;
static unsigned g_vcalls; static _Bool g_order_ok, g_args_ok; static _Bool g_fail[3]; static _Bool g_vraise;
static unsigned g_errs; static int g_err_path[3], g_err_msg[3]; static _Bool g_add_raises[3];
static struct KeyValue_rkvstr_c8_ri32_Required_Range_i32_Range_i32* g_kv;
_Bool AbsLoadObjectScope_SerializeValue__rkvstr_c8_ri32(struct AbsLoadObjectScope* s, const vstr_c8* key, int* v) {
  __CPROVER_assert(g_vcalls == 0, "C17: the field is loaded before any validator runs"); g_loads++;
  __CPROVER_assert(key == &g_key && v == &g_value, "C17: the field's own key and value are handed to the archive");
  if (g_load_raises) { __verif_exc = EXC_SerializationException; return 0; } if (g_loaded) *v = nondet_int(); return g_loaded; }
vstr_c8 AbsLoadObjectScope_GetPath___k(const struct AbsLoadObjectScope* s) { vstr_c8 r; r.id = S_PATH; return r; }
vstr_c8 Convert_ToString_rkvstr_c8_0__rkvstr_c8(const vstr_c8* k) { vstr_c8 r; r.id = k->id == S_KEY ? S_KEYSTR : S_OTHER; return r; }
static vopt_vstr_c8 validator(unsigned k, const void* handler, const void* expected, const int* value, _Bool loaded) {
  if (g_vcalls != k || handler != expected) g_order_ok = 0; if (value != &g_value || loaded != g_loaded || g_loads != 1) g_args_ok = 0; g_vcalls++;
  vopt_vstr_c8 r; r.has = g_fail[k]; r.v.id = S_MSG0 + (int)k; return r; }
/* the three validators of the field are three distinct objects: the k-th element of the tuple */
vopt_vstr_c8 Required_op_call_i32__rki32_b_k(const struct Required* h, const int* value, _Bool loaded) { return validator(0, h, &g_kv->mValidators.e0, value, loaded); }
vopt_vstr_c8 Range_i32_op_call__rki32_b_k(const struct Range_i32* h, const int* value, _Bool loaded) {
  if (g_vraise && nondet_bool()) { vopt_vstr_c8 r; r.has = 0; r.v.id = 0; __verif_exc = EXC_std_runtime_error; return r; }   /* Range::operator() is not noexcept */
  unsigned k = h == &g_kv->mValidators.e1 ? 1 : 2; return validator(k, h, k == 1 ? (const void*)&g_kv->mValidators.e1 : (const void*)&g_kv->mValidators.e2, value, loaded); }
void SerializationContext_AddValidationError__vstr_c8_vstr_c8(struct SerializationContext* c, vstr_c8 path, vstr_c8 msg) {
  unsigned i = g_errs; if (i < 3) { g_err_path[i] = path.id; g_err_msg[i] = msg.id; } g_errs++;
  if (i < 3 && g_add_raises[i]) __verif_exc = EXC_ValidationException; }     /* raises when maxValidationErrors is reached (its own contract) */
#include "gen.c"
static struct SerializationContext g_ctx;
void h_field_3v(void) { struct AbsLoadObjectScope scope; scope.__base_TArchiveScope.mSerializationContext = &g_ctx; struct KeyValue_rkvstr_c8_ri32_Required_Range_i32_Range_i32 kv; g_kv = &kv;
  g_key.id = S_KEY; kv.mKey = &g_key; kv.mValue = &g_value; g_loads = 0; g_load_raises = nondet_bool(); g_loaded = nondet_bool(); g_vcalls = 0; g_order_ok = 1; g_args_ok = 1; g_vraise = nondet_bool();
  for (int i = 0; i < 3; i++) { g_fail[i] = nondet_bool(); g_add_raises[i] = nondet_bool(); } g_errs = 0; __verif_exc = 0;
  verif_inst_load_field_3v__rAbsLoadObjectScope_xKeyValue_rkvstr_c8_ri32_Required_Range_i32_Range_i32(&scope, &kv);
  VERIF_ASSERT("C17", g_loads == 1 && g_order_ok && g_args_ok, "the field is loaded exactly once, and the validators run in declaration order, each on the field's own value and 'loaded' result");
  VERIF_ASSERT("C17,C20", !g_load_raises || (__verif_exc == EXC_SerializationException && g_vcalls == 0 && g_errs == 0), "a failing load propagates its exception; no validator runs and nothing is reported");
  VERIF_ASSERT("C17", __verif_exc != 0 || (g_vcalls == 3 && g_errs == (unsigned)g_fail[0] + g_fail[1] + g_fail[2]), "without an exception every validator ran exactly once and exactly the failing ones reported an error");
  unsigned w = nondet_uint(); __CPROVER_assume(w < 3);   /* arbitrary reported error */
  VERIF_ASSERT("C17", w >= g_errs || g_err_path[w] == S_FULL, "every reported error - also the 2nd and 3rd of the same field - is filed under the field's full path <scope path>/<key>");
  unsigned k0 = g_fail[0] ? 0 : (g_fail[1] ? 1 : 2), k1 = g_fail[0] ? (g_fail[1] ? 1 : 2) : 2;     /* 1st / 2nd failing validator */
  VERIF_ASSERT("C17", g_errs < 1 || (g_fail[k0] && g_err_msg[0] == S_MSG0 + (int)k0), "the first reported message is the first failing validator's own message");
  VERIF_ASSERT("C17", g_errs < 2 || (g_fail[k1] && k1 > k0 && g_err_msg[1] == S_MSG0 + (int)k1), "the second reported message is the second failing validator's own message (declaration order kept)");
  VERIF_ASSERT("C17", g_errs < 3 || (g_fail[2] && g_err_msg[2] == S_MSG0 + 2), "the third reported message is the third validator's");
  VERIF_ASSERT("C17,C20", g_errs == 0 || g_errs > 3 || !g_add_raises[g_errs - 1] || __verif_exc == EXC_ValidationException, "a ValidationException raised while reporting (error limit reached) propagates and stops the chain");
  VERIF_CANARY(); }
void h_field_0v(void) { struct AbsLoadObjectScope scope; scope.__base_TArchiveScope.mSerializationContext = &g_ctx; struct KeyValue_rkvstr_c8_ri32 kv;
  g_key.id = S_KEY; kv.mKey = &g_key; kv.mValue = &g_value; g_loads = 0; g_load_raises = nondet_bool(); g_loaded = nondet_bool(); g_vcalls = 0; g_errs = 0; __verif_exc = 0;
  verif_inst_load_field_0v__rAbsLoadObjectScope_xKeyValue_rkvstr_c8_ri32(&scope, &kv);
  VERIF_ASSERT("C17", g_loads == 1 && g_errs == 0 && (__verif_exc != 0) == g_load_raises, "a field without validators is loaded exactly once and reports nothing");
  VERIF_CANARY(); }
/*@jobs
job entry=h_field_3v props=C17,C20,C02 mode=direct unwind=4
job entry=h_field_0v props=C17,C02 mode=direct unwind=4
@*/
