// extraction TU: the real translation unit of the MsgPack readers; the noexcept constructors of both readers, extracted with --alloc-raises
// (an exception check follows every allocating std:: member call, so an allocation failure inside a noexcept function is an obligation).
#include "../../../repo/src/msgpack/msgpack_readers.cpp"
