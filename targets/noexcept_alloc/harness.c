/* C20 (allocation failure): the constructors of CMsgPackStringReader / CMsgPackStreamReader (src/msgpack/msgpack_readers.cpp:457, :1073) are
   declared noexcept and run right after the root scope's make_unique.  Extracted with --alloc-raises, every allocating std:: member call in
   them is followed by an exception check; in a noexcept function that check is the obligation "noexcept_escape" (std::terminate instead of an
   exception reaching the caller).  The std::string model below lets every allocating member fail nondeterministically, so the obligation is
   discharged only if the constructors allocate nothing. */
#include "models/prelude.h"
#include "models/sv.h"
#include <stdlib.h>
typedef struct { int _opaque; } vistream;
typedef struct { size_t len; size_t cap; } vstr_c8;
static inline vstr_c8 vstr_c8_ctor(void) { vstr_c8 s; s.len = 0; s.cap = 15; return s; }                 /* the default constructor allocates nothing (noexcept in C++17) */
static _Bool alloc_fails(void);
static inline void vstr_c8_reserve__u64(vstr_c8* s, unsigned long n) { if (n > s->cap) { if (alloc_fails()) return; s->cap = n; } }
static inline void vstr_c8_resize__u64(vstr_c8* s, unsigned long n) { if (n > s->cap) { if (alloc_fails()) return; s->cap = n; } s->len = n; }
#include "gen.h"
static _Bool alloc_fails(void) { if (nondet_bool()) { __verif_exc = EXC_std_bad_alloc; return 1; } return 0; }
#include "gen.c"
void CBinaryStreamReader_ctor__rvistream(struct CBinaryStreamReader* self, vistream* inputStream) { (void)self; (void)inputStream; }
static struct SerializationOptions g_opts; static vistream g_is;
void h_ctor_stream_reader(void) { struct CMsgPackStreamReader r; __verif_exc = 0;
  CMsgPackStreamReader_ctor__rvistream_rkSerializationOptions(&r, &g_is, &g_opts);
  VERIF_ASSERT("C20", __verif_exc == 0, "the noexcept constructor of the stream reader completes without an exception, whichever allocation fails");
  VERIF_ASSERT("C20", r.mBuffer.len == 0, "the reader starts with an empty string buffer");
  VERIF_CANARY(); }
void h_ctor_string_reader(void) { struct CMsgPackStringReader r; __verif_exc = 0; vsv_c8 in; in.data = 0; in.size = nondet_size_t();
  CMsgPackStringReader_ctor__vsv_c8_rkSerializationOptions(&r, in, &g_opts);
  VERIF_ASSERT("C20", __verif_exc == 0, "the noexcept constructor of the in-memory reader completes without an exception");
  VERIF_ASSERT("C20,C03", r.mPos == 0 && r.mInputData.size == in.size, "the reader starts at position 0 of exactly the given document");
  VERIF_CANARY(); }
/*@jobs
job entry=h_ctor_stream_reader props=C20 mode=direct unwind=3
job entry=h_ctor_string_reader props=C20,C03 mode=direct unwind=3
@*/
