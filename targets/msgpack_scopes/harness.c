/* MsgPack read scopes (include/bitserializer/msgpack_archive.h) verified MODULARLY against the reader interface contract:
   every IMsgPackReader call is a contract-only callee that either raises or consumes exactly one value (ghost g_consumed + 1) and
   reports loaded / not loaded.  C05: a scope's element index advances exactly with the values consumed, on EVERY non-raising path,
   so that a skipped element does not disturb its neighbours; at the end of the container nothing is consumed and OutOfRange is raised. */
#include "models/prelude.h"
#include "models/sv.h"
typedef struct { int _opaque; } std_variant_vstr_c8_vstr_wc_vstr_c16_vstr_c32;
typedef struct { int _opaque; } std_map_vstr_c8_vvec_vstr_c8_std_less_vstr_c8;
typedef struct { char __e; } std_nullopt_t;
static const std_nullopt_t m_std_nullopt = {0};
/* optional<child scope>: only "engaged?" and the constructor arguments matter to the parent scope */
typedef struct { _Bool has; unsigned long size; void* reader; void* parent; } vopt_scope;
typedef vopt_scope vopt_CMsgPackReadArrayScope_IMsgPackReader; typedef vopt_scope vopt_CMsgPackReadObjectScope_IMsgPackReader; typedef vopt_scope vopt_CMsgPackReadBinaryScope_IMsgPackReader;
static inline vopt_scope vopt_none(std_nullopt_t n) { (void)n; vopt_scope o; o.has = 0; o.size = 0; o.reader = 0; o.parent = 0; return o; }
static inline _Bool vopt_has(const vopt_scope* o) { return o->has; }
#define vopt_CMsgPackReadArrayScope_IMsgPackReader_ctor__std_nullopt_t vopt_none
#define vopt_CMsgPackReadObjectScope_IMsgPackReader_ctor__std_nullopt_t vopt_none
#define vopt_CMsgPackReadBinaryScope_IMsgPackReader_ctor__std_nullopt_t vopt_none
#define vopt_CMsgPackReadArrayScope_IMsgPackReader_has_value___k vopt_has
#define vopt_CMsgPackReadObjectScope_IMsgPackReader_has_value___k vopt_has
#define vopt_CMsgPackReadBinaryScope_IMsgPackReader_has_value___k vopt_has
typedef struct { int _opaque; } std_tuple_vstr_c8_vsv_c8_i64_u64_f32_f64_CBinTimestamp;
#include "gen.h"
#ifndef ValueType_BinaryArray   /* emitted by the extractor only when the extracted code mentions it (enum ValueType of msgpack_archive.h: Array = 8, BinaryArray = 9) */
#define ValueType_BinaryArray (9)
#endif
#ifndef ValueType_Array
#define ValueType_Array (8)
#endif
/* std::make_optional<Scope>(...) is extracted as the scope's real constructor followed by this model call: the child is described by what its constructor stored */
static inline vopt_scope vopt_CMsgPackReadArrayScope_IMsgPackReader_make(struct CMsgPackReadArrayScope_IMsgPackReader* t) { vopt_scope o; o.has = 1; o.size = t->mSize; o.reader = t->mMsgPackReader; o.parent = t->__base_CMsgPackScopeBase.mParentScope; __CPROVER_assert(t->mIndex == 0, "C05: a new child scope starts at element 0"); return o; }
static unsigned long g_child_start;
static inline vopt_scope vopt_CMsgPackReadObjectScope_IMsgPackReader_make(struct CMsgPackReadObjectScope_IMsgPackReader* t) { __CPROVER_assert(t->mStartPos == g_child_start && t->mIndex == 0, "C03: a new object scope remembers the reader position of its first key and starts at pair 0"); vopt_scope o; o.has = 1; o.size = t->mSize; o.reader = t->mMsgPackReader; o.parent = t->__base_CMsgPackScopeBase.mParentScope; __CPROVER_assert(t->mIndex == 0, "C05: a new child scope starts at element 0"); return o; }
static inline vopt_scope vopt_CMsgPackReadBinaryScope_IMsgPackReader_make(struct CMsgPackReadBinaryScope_IMsgPackReader* t) { vopt_scope o; o.has = 1; o.size = t->mSize; o.reader = t->mMsgPackReader; o.parent = t->__base_CMsgPackScopeBase.mParentScope; __CPROVER_assert(t->mIndex == 0, "C05: a new child scope starts at element 0"); return o; }

/* ---- reader interface contract (each implementation is proved against the same statement in msgpack_sreader / msgpack_skip) ---- */
static size_t g_consumed; static unsigned g_calls;
static _Bool rd_one_value(void) {
  g_calls++;
  if (nondet_bool()) { __verif_exc = nondet_bool() ? EXC_ParsingException : EXC_SerializationException; return 0; }   /* raises: truncated input, mismatch/overflow with ThrowError */
  g_consumed++;                                                                                                    /* otherwise exactly one value is consumed ... */
  return nondet_bool();                                                                                            /* ... and reported as loaded or as skipped */
}
_Bool IMsgPackReader_ReadValue__ri32(struct IMsgPackReader* r, int* v) { _Bool ok = rd_one_value(); if (ok) *v = nondet_int(); return ok; }
_Bool IMsgPackReader_ReadValue__ru8(struct IMsgPackReader* r, unsigned char* v) { _Bool ok = rd_one_value(); if (ok) *v = nondet_uchar(); return ok; }
_Bool IMsgPackReader_ReadValue__ri64(struct IMsgPackReader* r, long* v) { _Bool ok = rd_one_value(); if (ok) *v = nondet_long(); return ok; }
_Bool IMsgPackReader_ReadValue__rf64(struct IMsgPackReader* r, double* v) { _Bool ok = rd_one_value(); if (ok) *v = nondet_double(); return ok; }
_Bool IMsgPackReader_ReadValue__rb(struct IMsgPackReader* r, _Bool* v) { _Bool ok = rd_one_value(); if (ok) *v = nondet_bool(); return ok; }
_Bool IMsgPackReader_ReadValue__rnp(struct IMsgPackReader* r, void** v) { return rd_one_value(); }
_Bool IMsgPackReader_ReadValue__rvsv_c8(struct IMsgPackReader* r, vsv_c8* v) { _Bool ok = rd_one_value(); if (ok) { v->data = 0; v->size = nondet_size_t(); } return ok; }
_Bool IMsgPackReader_ReadValue__rCBinTimestamp(struct IMsgPackReader* r, struct CBinTimestamp* v) { _Bool ok = rd_one_value(); if (ok) { v->Seconds = nondet_long(); v->Nanoseconds = nondet_int(); } return ok; }
_Bool IMsgPackReader_ReadArraySize__ru64(struct IMsgPackReader* r, unsigned long* v);
_Bool IMsgPackReader_ReadMapSize__ru64(struct IMsgPackReader* r, unsigned long* v) { _Bool ok = rd_one_value(); if (ok) *v = nondet_ulong(); return ok; }
/* the kind of the NEXT value (ghost): ReadValueType reports it without consuming anything (or raises on truncated input); a size request matches iff the kind is the requested one */
static int g_next_kind; static unsigned g_peeks;
int IMsgPackReader_ReadValueType(struct IMsgPackReader* r) { g_peeks++; if (nondet_bool()) { __verif_exc = EXC_ParsingException; return 0; } return g_next_kind; }
static _Bool rd_one_sized(int kind) { g_calls++;
  if (nondet_bool()) { __verif_exc = nondet_bool() ? EXC_ParsingException : EXC_SerializationException; return 0; }
  g_consumed++; _Bool ok = g_next_kind == kind; g_next_kind = nondet_int(); return ok; }
_Bool IMsgPackReader_ReadBinarySize__ru64(struct IMsgPackReader* r, unsigned long* v) { _Bool ok = rd_one_sized(ValueType_BinaryArray); if (ok) *v = nondet_ulong(); return ok; }
_Bool IMsgPackReader_ReadArraySize__ru64(struct IMsgPackReader* r, unsigned long* v) { _Bool ok = rd_one_sized(ValueType_Array); if (ok) *v = nondet_ulong(); return ok; }
char IMsgPackReader_ReadBinary(struct IMsgPackReader* r) { g_calls++; if (nondet_bool()) { __verif_exc = EXC_ParsingException; return 0; } g_consumed++; return nondet_char(); }
/* constructor of a child object scope: remembers the reader position (start of the map) and starts without a current key */
unsigned long IMsgPackReader_GetPosition___k(const struct IMsgPackReader* r) { g_child_start = nondet_ulong(); return g_child_start; }
void CVariableKey_std_tuple_vstr_c8_vsv_c8_i64_u64_f32_f64_CBinTimestamp_ctor(struct CVariableKey_std_tuple_vstr_c8_vsv_c8_i64_u64_f32_f64_CBinTimestamp* k) { (void)k; }
#include "gen.c"

static struct IMsgPackReader g_reader; static struct SerializationContext g_ctx;
#define ARR struct CMsgPackReadArrayScope_IMsgPackReader
static void arr_init(ARR* s) {
  s->mMsgPackReader = &g_reader; s->__base_TArchiveScope.mSerializationContext = &g_ctx; s->__base_CMsgPackScopeBase.mParentScope = 0;
  s->mSize = nondet_ulong(); s->mIndex = nondet_ulong(); __CPROVER_assume(s->mIndex <= s->mSize);   /* scope invariant: index within the declared size */
  g_consumed = nondet_size_t(); __CPROVER_assume(g_consumed < ((size_t)1 << 60)); g_calls = 0; g_peeks = 0; g_next_kind = nondet_int(); __verif_exc = 0; __verif_exc_code = 0;
}
/* common postconditions of "load/open one element of an array scope" */
#define ELEM_POST(s, i0, c0, ret, KF) \
  VERIF_ASSERT("C05,C02", (i0) < (s).mSize || (__verif_exc == EXC_SerializationException && __verif_exc_code == SerializationErrorCode_OutOfRange && g_calls == 0 && (s).mIndex == (i0)), KF "at the end of the array nothing is read and SerializationException(OutOfRange) is raised"); \
  VERIF_ASSERT("C05", !((i0) < (s).mSize && __verif_exc == 0) || ((s).mIndex - (i0) == g_consumed - (c0) && g_consumed - (c0) == 1 && (s).mIndex <= (s).mSize), KF "the element index advances exactly with the values consumed (one), whether the element was loaded or skipped"); \
  VERIF_ASSERT("C05,C20", !((i0) < (s).mSize && __verif_exc != 0) || (s).mIndex == (i0), "a raising element load leaves the index unchanged");

#define H_ARR_VALUE(TAG, CT, INIT) \
void h_arr_value_##TAG(void) { ARR s; arr_init(&s); unsigned long i0 = s.mIndex; size_t c0 = g_consumed; CT v = INIT; \
  _Bool ret = verif_inst_arr_value_##TAG##__rCMsgPackReadArrayScope_IMsgPackReader_r##TAG(&s, &v); \
  ELEM_POST(s, i0, c0, ret, "[KF-C05-array-skip-index] ") VERIF_CANARY(); }
H_ARR_VALUE(i32, int, 0) H_ARR_VALUE(u8, unsigned char, 0) H_ARR_VALUE(i64, long, 0) H_ARR_VALUE(f64, double, 0) H_ARR_VALUE(b, _Bool, 0)
void h_arr_value_sv(void) { ARR s; arr_init(&s); unsigned long i0 = s.mIndex; size_t c0 = g_consumed; vsv_c8 v; v.data = 0; v.size = 0;
  _Bool ret = verif_inst_arr_value_sv__rCMsgPackReadArrayScope_IMsgPackReader_rvsv_c8(&s, &v); ELEM_POST(s, i0, c0, ret, "[KF-C05-array-skip-index] ") VERIF_CANARY(); }
void h_arr_value_nil(void) { ARR s; arr_init(&s); unsigned long i0 = s.mIndex; size_t c0 = g_consumed; void* v = 0;
  _Bool ret = verif_inst_arr_value_nil__rCMsgPackReadArrayScope_IMsgPackReader_rnp(&s, &v); ELEM_POST(s, i0, c0, ret, "[KF-C05-array-skip-index] ") VERIF_CANARY(); }
void h_arr_value_ts(void) { ARR s; arr_init(&s); unsigned long i0 = s.mIndex; size_t c0 = g_consumed; struct CBinTimestamp v; v.Seconds = 0; v.Nanoseconds = 0;
  _Bool ret = verif_inst_arr_value_ts__rCMsgPackReadArrayScope_IMsgPackReader_rCBinTimestamp(&s, &v); ELEM_POST(s, i0, c0, ret, "[KF-C05-array-skip-index] ") VERIF_CANARY(); }
#define H_ARR_OPEN(NAME, KF) \
void h_arr_open_##NAME(void) { ARR s; arr_init(&s); unsigned long i0 = s.mIndex; size_t c0 = g_consumed; \
  _Bool ret = verif_inst_arr_open_##NAME##__rCMsgPackReadArrayScope_IMsgPackReader(&s); \
  ELEM_POST(s, i0, c0, ret, KF) VERIF_CANARY(); }
H_ARR_OPEN(array, "[KF-C05-array-skip-index] ") H_ARR_OPEN(object, "[KF-C05-array-skip-index] ")
/* OpenBinaryScope: a binary element is consumed (its head) and opened; any OTHER kind of value is left untouched for the array fallback of the generic loader */
void h_arr_open_binary(void) { ARR s; arr_init(&s); unsigned long i0 = s.mIndex; size_t c0 = g_consumed; int kind = g_next_kind;
  _Bool ret = verif_inst_arr_open_binary__rCMsgPackReadArrayScope_IMsgPackReader(&s);
  VERIF_ASSERT("C05,C02", i0 < s.mSize || (__verif_exc == EXC_SerializationException && __verif_exc_code == SerializationErrorCode_OutOfRange && g_calls == 0 && g_peeks == 0 && s.mIndex == i0), "[KF-C05-array-binary-index] at the end of the array nothing is read and SerializationException(OutOfRange) is raised");
  VERIF_ASSERT("C05", !(i0 < s.mSize && __verif_exc == 0) || (kind == ValueType_BinaryArray ? (ret && s.mIndex == i0 + 1 && g_consumed == c0 + 1) : (!ret && s.mIndex == i0 && g_consumed == c0)), "[KF-C05-array-binary-index] a binary element is opened and counted once; a value of any other kind is NOT consumed (it is left to the array fallback), index unchanged");
  VERIF_ASSERT("C05,C20", !(i0 < s.mSize && __verif_exc != 0) || s.mIndex == i0, "a raising element load leaves the index unchanged");
  VERIF_CANARY(); }
/* the generic loader of a byte container (serialization_base_types.h:507-524) asks for a binary scope first and falls back to an array scope:
   composed here from the two REAL scope methods in that order - together they consume exactly ONE element, whatever its kind */
void h_arr_open_bytes(void) { ARR s; arr_init(&s); unsigned long i0 = s.mIndex; size_t c0 = g_consumed; __CPROVER_assume(i0 < s.mSize);
  _Bool ret = verif_inst_arr_open_binary__rCMsgPackReadArrayScope_IMsgPackReader(&s);
  if (__verif_exc == 0 && !ret) ret = verif_inst_arr_open_array__rCMsgPackReadArrayScope_IMsgPackReader(&s);
  VERIF_ASSERT("C05", __verif_exc != 0 || (s.mIndex == i0 + 1 && g_consumed == c0 + 1), "[KF-C05-array-bytes-fallback] loading one byte-container element (binary scope, else array scope) consumes exactly that one element - also when it is mismatched, null or stored as an array - so the elements after it are still read");
  VERIF_ASSERT("C05,C20", __verif_exc == 0 || s.mIndex == i0, "a raising element load leaves the index unchanged");
  VERIF_CANARY(); }
void h_arr_misc(void) { ARR s; arr_init(&s);
  VERIF_ASSERT("C05", verif_inst_arr_is_end__rkCMsgPackReadArrayScope_IMsgPackReader(&s) == (s.mIndex == s.mSize) && verif_inst_arr_estimated__rkCMsgPackReadArrayScope_IMsgPackReader(&s) == s.mSize && g_calls == 0, "IsEnd / GetEstimatedSize report index == size / the declared size without touching the reader");
  VERIF_CANARY(); }
void h_bin_value(void) { struct CMsgPackReadBinaryScope_IMsgPackReader s; s.mMsgPackReader = &g_reader; s.__base_TArchiveScope.mSerializationContext = &g_ctx; s.__base_CMsgPackScopeBase.mParentScope = 0;
  s.mSize = nondet_ulong(); s.mIndex = nondet_ulong(); __CPROVER_assume(s.mIndex <= s.mSize); g_consumed = 0; g_calls = 0; __verif_exc = 0; __verif_exc_code = 0; unsigned long i0 = s.mIndex; char v = 0;
  _Bool ret = verif_inst_bin_value__rCMsgPackReadBinaryScope_IMsgPackReader_rc8(&s, &v);
  VERIF_ASSERT("C05,C02", i0 < s.mSize || (__verif_exc == EXC_SerializationException && __verif_exc_code == SerializationErrorCode_OutOfRange && g_calls == 0), "at the end of a binary nothing is read and OutOfRange is raised");
  VERIF_ASSERT("C05", !(i0 < s.mSize && __verif_exc == 0) || (ret && s.mIndex == i0 + 1 && g_consumed == 1), "each binary element load consumes exactly one byte and advances the index by one");
  VERIF_CANARY(); }
/*@jobs
for T in i32 u8 i64 f64 b sv nil ts:
  job entry=h_arr_value_{T} props=C05,C02,C20 mode=direct unwind=2 kf=KF-C05-array-skip-index
for T in array object:
  job entry=h_arr_open_{T} props=C05,C02,C20 mode=direct unwind=2 kf=KF-C05-array-skip-index
job entry=h_arr_open_binary props=C05,C02,C20 mode=direct unwind=2 kf=KF-C05-array-binary-index
job entry=h_arr_open_bytes props=C05,C20 mode=direct unwind=2 kf=KF-C05-array-bytes-fallback
job entry=h_arr_misc props=C05 mode=direct unwind=2
job entry=h_bin_value props=C05,C02 mode=direct unwind=2
@*/
