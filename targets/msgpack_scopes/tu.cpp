// extraction TU: MsgPack read scopes of include/bitserializer/msgpack_archive.h instantiated over the reader INTERFACE (IMsgPackReader):
// the virtual reader calls become contract-only callees, so the scopes are verified against the reader contract, not a reader body.
#include "bitserializer/msgpack_archive.h"
namespace verif_inst {
using namespace BitSerializer; using namespace BitSerializer::MsgPack::Detail;
using ArrScope = CMsgPackReadArrayScope<IMsgPackReader>;
using BinScope = CMsgPackReadBinaryScope<IMsgPackReader>;
#define ARR_VALUE(TAG, T) bool arr_value_##TAG(ArrScope& s, T& v) { return s.SerializeValue(v); }
ARR_VALUE(i32, int) ARR_VALUE(u8, unsigned char) ARR_VALUE(i64, long) ARR_VALUE(f64, double) ARR_VALUE(b, bool) ARR_VALUE(sv, std::string_view) ARR_VALUE(nil, std::nullptr_t) ARR_VALUE(ts, BitSerializer::Detail::CBinTimestamp)
bool arr_is_end(const ArrScope& s) { return s.IsEnd(); }
size_t arr_estimated(const ArrScope& s) { return s.GetEstimatedSize(); }
bool arr_open_array(ArrScope& s) { return s.OpenArrayScope(0).has_value(); }
bool arr_open_object(ArrScope& s) { return s.OpenObjectScope(0).has_value(); }
bool arr_open_binary(ArrScope& s) { return s.OpenBinaryScope(0).has_value(); }
bool bin_value(BinScope& s, char& v) { return s.SerializeValue(v); }
bool bin_is_end(const BinScope& s) { return s.IsEnd(); }
}
