/* Contracts for the CBinTimestamp <-> chrono conversions (bin_timestamp.h:38-117).
   C06/C14: time point / duration -> {Seconds, Nanoseconds} with 0 <= Nanoseconds <= 999999999 and Seconds*10^9 + Nanoseconds equal to the
   source instant exactly (mathematical integers), or std::out_of_range when Seconds does not fit; and the reverse conversion restores
   the tick count.  The chains contain 64-bit multiply/divide by constants: CBMC proves them only on restricted domains (labelled
   bounded); the full domain is covered by a counterexample search and by the native exhaustive stand-in (native.cpp). */
#include "models/prelude.h"
#include "gen.h"
#include "gen.c"
typedef __int128 mint;
#ifndef DOMBITS
#define DOMBITS 63
#endif
#define IN_DOMAIN(c) (DOMBITS >= 63 || ((c) > -((long)1 << DOMBITS) && (c) < ((long)1 << DOMBITS)))
#define H_TO_TS(KIND, U, UNIT_NS) \
void h_##KIND##_##U(void) { long c = nondet_long(); __CPROVER_assume(IN_DOMAIN(c)); struct CBinTimestamp ts; ts.Seconds = nondet_long(); ts.Nanoseconds = nondet_int(); __verif_exc = 0; \
  verif_inst_##KIND##_##U##__i64_rCBinTimestamp(c, &ts); \
  mint total = (mint)c * (mint)(UNIT_NS); \
  /* floor(total / 10^9) fits int64  <=>  INT64_MIN*10^9 <= total < (INT64_MAX+1)*10^9   (no division needed) */ \
  _Bool fits = total >= (-(mint)9223372036854775807LL - 1) * 1000000000 && total < ((mint)9223372036854775807LL + 1) * 1000000000; \
  VERIF_ASSERT("C06,C14", __verif_exc == 0 || (__verif_exc == EXC_std_out_of_range && !fits), "the conversion raises only std::out_of_range, and only when the seconds do not fit 64 bits"); \
  VERIF_ASSERT("C06,C14", __verif_exc != 0 || (ts.Nanoseconds >= 0 && ts.Nanoseconds <= 999999999), "Nanoseconds is within 0..999999999 (MessagePack timestamp range), also before the epoch"); \
  VERIF_ASSERT("C06,C14,C01", __verif_exc != 0 || (mint)ts.Seconds * 1000000000 + ts.Nanoseconds == total, "Seconds*10^9 + Nanoseconds is exactly the source instant"); \
  VERIF_CANARY(); }
#define H_RT(KIND, BACK, U) \
void h_rt_##KIND##_##U(void) { long c = nondet_long(); __CPROVER_assume(IN_DOMAIN(c)); struct CBinTimestamp ts; ts.Seconds = 0; ts.Nanoseconds = 0; __verif_exc = 0; \
  verif_inst_##KIND##_##U##__i64_rCBinTimestamp(c, &ts); \
  if (__verif_exc == 0) { long back = verif_inst_##BACK##_##U##__rkCBinTimestamp(&ts); \
    VERIF_ASSERT("C14,C01", __verif_exc == 0 && back == c, "converting to the binary timestamp and back restores the identical tick count"); } \
  VERIF_CANARY(); }
#define ALLU(X, KIND) X(KIND, ns, 1) X(KIND, us, 1000) X(KIND, ms, 1000000) X(KIND, s, 1000000000LL) X(KIND, min, 60000000000LL) X(KIND, h, 3600000000000LL)
ALLU(H_TO_TS, tp2ts) ALLU(H_TO_TS, d2ts)
#define RTU(KIND, BACK) H_RT(KIND, BACK, ns) H_RT(KIND, BACK, us) H_RT(KIND, BACK, ms) H_RT(KIND, BACK, s) H_RT(KIND, BACK, min) H_RT(KIND, BACK, h)
RTU(tp2ts, ts2tp) RTU(d2ts, ts2d)
/*@jobs
for K in tp2ts d2ts:
  for U in ns us ms s min h:
    job entry=h_{K}_{U} props=C06,C14,C01 mode=direct backend=cvc5int
    job entry=h_rt_{K}_{U} props=C14,C01 mode=direct backend=cvc5int
@*/
