// extraction TU: CBinTimestamp <-> std::chrono conversions (include/bitserializer/serialization_detail/bin_timestamp.h),
// instantiated for system_clock time points and durations of ns, us, ms, s, min, h (all with 64-bit rep) through thin wrappers that
// take/return the raw tick count, so that harnesses do not depend on libstdc++'s chrono struct layout.
#include "bitserializer/convert.h"
#include "bitserializer/serialization_detail/bin_timestamp.h"
#include <chrono>
namespace verif_inst {
using namespace std::chrono;
using BitSerializer::Detail::CBinTimestamp;
#define INST(TAG, D) \
  void tp2ts_##TAG(long count, CBinTimestamp& ts) { BitSerializer::Detail::To(time_point<system_clock, D>(D(count)), ts); } \
  long ts2tp_##TAG(const CBinTimestamp& ts) { time_point<system_clock, D> tp; BitSerializer::Detail::To(ts, tp); return tp.time_since_epoch().count(); } \
  void d2ts_##TAG(long count, CBinTimestamp& ts) { BitSerializer::Detail::To(D(count), ts); } \
  long ts2d_##TAG(const CBinTimestamp& ts) { D d; BitSerializer::Detail::To(ts, d); return d.count(); }
INST(ns, nanoseconds) INST(us, microseconds) INST(ms, milliseconds) INST(s, seconds) INST(min, minutes) INST(h, hours)
}
