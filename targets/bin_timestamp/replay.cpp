// Native replay for bin_timestamp: runs the REAL conversions of bin_timestamp.h on the counterexample's tick count and re-evaluates the
// contract (0 <= ns <= 999999999, sec*10^9+ns == instant, round trip) natively.
#include "bitserializer/convert.h"
#include "bitserializer/serialization_detail/bin_timestamp.h"
#include <chrono>
#include <cstdio>
#include "replay/replay_util.h"
using namespace std::chrono; using BitSerializer::Detail::CBinTimestamp;
template <class D> static bool run(bool isTp, bool rt, long c, __int128 unitNs) {
  CBinTimestamp ts; bool raised = false;
  try { if (isTp) BitSerializer::Detail::To(time_point<system_clock, D>(D(c)), ts); else BitSerializer::Detail::To(D(c), ts); } catch (const std::out_of_range&) { raised = true; }
  __int128 total = (__int128)c * unitNs;
  bool fits = total >= (-(__int128)INT64_MAX - 1) * 1000000000 && total < ((__int128)INT64_MAX + 1) * 1000000000;
  printf("count=%ld -> raised=%d Seconds=%ld Nanoseconds=%d\n", c, (int)raised, raised ? 0 : ts.Seconds, raised ? 0 : ts.Nanoseconds);
  if (raised) return fits;
  if (ts.Nanoseconds < 0 || ts.Nanoseconds > 999999999) return true;
  if ((__int128)ts.Seconds * 1000000000 + ts.Nanoseconds != total) return true;
  if (rt) { long back; try { if (isTp) { time_point<system_clock, D> tp; BitSerializer::Detail::To(ts, tp); back = tp.time_since_epoch().count(); } else { D d; BitSerializer::Detail::To(ts, d); back = d.count(); } } catch (const std::exception&) { return true; } printf("back=%ld\n", back); if (back != c) return true; }
  return false;
}
int main(int argc, char** argv) {
  ReplayDoc D; if (argc < 2 || !D.load(argv[1])) { puts("cannot read replay file"); return 2; }
  std::string e = D.entry; bool rt = e.find("h_rt_") == 0; bool isTp = e.find("tp2ts") != std::string::npos; std::string U = e.substr(e.rfind('_') + 1); long c = D.i64("c"); bool bad;
  if (U == "ns") bad = run<nanoseconds>(isTp, rt, c, 1); else if (U == "us") bad = run<microseconds>(isTp, rt, c, 1000); else if (U == "ms") bad = run<milliseconds>(isTp, rt, c, 1000000);
  else if (U == "s") bad = run<seconds>(isTp, rt, c, 1000000000LL); else if (U == "min") bad = run<minutes>(isTp, rt, c, 60000000000LL); else if (U == "h") bad = run<hours>(isTp, rt, c, 3600000000000LL); else { puts("unknown unit"); return 2; }
  puts(bad ? "REPRODUCED: the real conversion violates the timestamp contract" : "NOT-REPRODUCED"); return 0;
}
