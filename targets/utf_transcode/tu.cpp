// extraction TU: the UTF transcoders of include/bitserializer/conversion_detail/convert_utf.h, instantiated for raw pointer iterators.
#include "bitserializer/conversion_detail/convert_utf.h"
#include <string>
namespace verif_inst {
using namespace BitSerializer::Convert::Utf;
#define W(NAME, CLS, FN, INCH, OUTCH) \
  UtfEncodingResult<const INCH*> NAME(const INCH* in, const INCH* end, std::basic_string<OUTCH>& out, UtfEncodingErrorPolicy policy, const OUTCH* mark) { return CLS::FN(in, end, out, policy, mark); }
W(u8_to_u16, Utf8, Decode, char, char16_t)
W(u8_to_u32, Utf8, Decode, char, char32_t)
W(u16_to_u8, Utf8, Encode, char16_t, char)
W(u32_to_u8, Utf8, Encode, char32_t, char)
W(u16_to_u32, Utf16, Decode, char16_t, char32_t)
W(u32_to_u16, Utf16, Encode, char32_t, char16_t)
W(u16_to_u16, Utf16, Decode, char16_t, char16_t)
W(u32_to_u32, Utf32, Decode, char32_t, char32_t)
}
