/* Step contracts for the UTF transcoders (convert_utf.h): the body of each transcoder's main loop is outlined mechanically by cxx2c
   into <fn>__loop1_body(env) and proved, for an ARBITRARY iteration (arbitrary remaining input length >= 1, arbitrary prior output,
   arbitrary error count, both policies, mark present or absent), against the per-character specification of The Unicode Standard
   (spec/utf_spec.h).  C11 = the well-formed half, C12 = the ill-formed / truncated half.  Inner tail loops are unwound with an
   unwinding assertion (complete).  Input model: see models/docwin.h — only the look-ahead window of UW code units is materialised. */
#include "models/prelude.h"
#include "models/ustr.h"
#include <stdlib.h>
#include "gen.h"
#include "spec/utf_spec.h"
#include "gen.c"

#define CAT_(a, b) a##b
#define CAT(a, b) CAT_(a, b)
#define BODY(N) CAT(N, __loop1_body)
#define ENV(N) struct CAT(N, __loop1_env)
#define N_U8D16 Utf8_Decode_pkc8_c16_valloc_c16__pkc8_pkc8_rvstr_c16_UtfEncodingErrorPolicy_pkc16
#define N_U8D32 Utf8_Decode_pkc8_c32_valloc_c32__pkc8_pkc8_rvstr_c32_UtfEncodingErrorPolicy_pkc32
#define N_U16E8 Utf8_Encode_pkc16_c8_valloc_c8__pkc16_rkpkc16_rvstr_c8_UtfEncodingErrorPolicy_pkc8
#define N_U32E8 Utf8_Encode_pkc32_c8_valloc_c8__pkc32_rkpkc32_rvstr_c8_UtfEncodingErrorPolicy_pkc8
#define N_U16D32 Utf16_Decode_pkc16_c32_valloc_c32__pkc16_rkpkc16_rvstr_c32_UtfEncodingErrorPolicy_pkc32
#define N_U32E16 Utf16_Encode_pkc32_c16_valloc_c16__pkc32_rkpkc32_rvstr_c16_UtfEncodingErrorPolicy_pkc16
#define N_U16D16 Utf16_Decode_pkc16_c16_valloc_c16__pkc16_rkpkc16_rvstr_c16_UtfEncodingErrorPolicy_pkc16

#define UW 8
#ifdef VERIF_SMALL_CE
#define VERIF_SMALL 1
#else
#define VERIF_SMALL 0
#endif
#define DEF_UWIN(TAG, UNIT) \
struct uwin_##TAG { UNIT wb[UW]; UNIT* win; size_t wlen; size_t remaining; const UNIT* end; }; \
static void uwin_##TAG##_init(struct uwin_##TAG* w) { \
  w->remaining = nondet_size_t(); __CPROVER_assume(w->remaining >= 1 && w->remaining <= ((size_t)1 << 50));   /* loop condition in != end; inputs up to 2^50 units (CBMC pointer offsets have 56 bits) */ \
  if (VERIF_SMALL) __CPROVER_assume(w->remaining <= UW);   /* only while extracting a counterexample that the native replay can materialise */ \
  w->wlen = w->remaining < UW ? w->remaining : UW; \
  w->win = malloc(w->wlen * sizeof(UNIT)); __CPROVER_assume(w->win != 0); \
  for (unsigned k = 0; k < UW; k++) w->wb[k] = k < w->wlen ? w->win[k] : 0; \
  _Pragma("CPROVER check push") _Pragma("CPROVER check disable \"pointer-overflow\"") \
  w->end = w->win + w->remaining; \
  _Pragma("CPROVER check pop") }
DEF_UWIN(c8, char)
DEF_UWIN(c16, uint16_t)
DEF_UWIN(c32, uint32_t)

/* reference classification of the sequence at offset k of the window */
#define REF_c8(w, k) utf8_ref((const unsigned char*)(w).wb + (k), (w).remaining - (k))
#define REF_c16(w, k) utf16_ref((w).wb + (k), (w).remaining - (k))
#define REF_c32(w, k) utf32_ref((w).wb + (k), (w).remaining - (k))
#define DECL_c8(w) utf8_declared_len((unsigned char)(w).wb[0])
#define DECL_c16(w) 1u
#define DECL_c32(w) 1u
/* "no consumed unit after the first starts a well-formed sequence" (consumed <= 6 <= UW-1) */
#define NO_SWALLOW(INTAG, w, consumed) ( \
  ((consumed) <= 1 || REF_##INTAG(w, 1).kind != U_OK) && ((consumed) <= 2 || REF_##INTAG(w, 2).kind != U_OK) && ((consumed) <= 3 || REF_##INTAG(w, 3).kind != U_OK) && \
  ((consumed) <= 4 || REF_##INTAG(w, 4).kind != U_OK) && ((consumed) <= 5 || REF_##INTAG(w, 5).kind != U_OK) && (consumed) <= 6 )
#define OUT_EQ(OUNIT, out, len0, enc) ((out).units == (enc).n && (out).len == (len0) + (enc).n && (out).marks == 0 && \
  ((enc).n < 1 || (out).win[0] == (OUNIT)(enc).u[0]) && ((enc).n < 2 || (out).win[1] == (OUNIT)(enc).u[1]) && ((enc).n < 3 || (out).win[2] == (OUNIT)(enc).u[2]) && ((enc).n < 4 || (out).win[3] == (OUNIT)(enc).u[3]))

/* transcoders with error handling in the loop (policy, mark, error count, result) */
#define H_STEP_FULL(NAME, N, INTAG, INUNIT, OTAG, OUNIT, ENC, RES, ENDSETUP) \
void h_step_##NAME(void) { \
  struct uwin_##INTAG w; uwin_##INTAG##_init(&w); const INUNIT* in = w.win; const INUNIT* end = w.end; \
  static OUNIT g_mark[2]; const OUNIT* mark = nondet_bool() ? &g_mark[0] : (const OUNIT*)0; \
  vstr_##OTAG out; ustr_##OTAG##_init(&out, mark); vstr_##OTAG* outp = &out; size_t len0 = out.len; \
  int policy = nondet_bool() ? UtfEncodingErrorPolicy_ThrowError : UtfEncodingErrorPolicy_Skip; \
  unsigned long count0 = nondet_ulong(); __CPROVER_assume(count0 < ((unsigned long)1 << 60)); unsigned long count = count0; \
  struct RES ret; ret.ErrorCode = -1; ret.Iterator = 0; ret.InvalidSequencesCount = 0; \
  ENV(N) e; e.in = &in; ENDSETUP e.outStr = &outp; e.errorPolicy = &policy; e.errorMark = &mark; e.invalidSequencesCount = &count; e.__ret = &ret; \
  __verif_exc = 0; \
  int rc = BODY(N)(&e); \
  ustep r = REF_##INTAG(w, 0); size_t consumed = (size_t)(in - w.win); \
  VERIF_ASSERT("C12,C02", (rc == 0 || rc == 2) && __verif_exc == 0, "one step either continues the loop or returns a result; it never raises"); \
  VERIF_ASSERT("C12,C02", rc != 0 || (consumed >= 1 && consumed <= w.remaining), "a continuing step consumes at least one code unit and never moves past the end of the input"); \
  uenc en = ENC(r.scalar); \
  VERIF_ASSERT("C11", r.kind != U_OK || (rc == 0 && consumed == r.len && count == count0 && OUT_EQ(OUNIT, out, len0, en)), \
     "a well-formed sequence is consumed exactly and appended as exactly the standard encoding form of its scalar value, with no error counted"); \
  VERIF_ASSERT("C12,C13", r.kind != U_TRUNC || (rc == 2 && ret.ErrorCode == UtfEncodingErrorCode_UnexpectedEnd && ret.Iterator == w.win && out.len == len0 && out.marks == 0), \
     "a well-formed prefix cut by the end of the input returns UnexpectedEnd positioned at the start of the sequence and appends nothing"); \
  VERIF_ASSERT("C12", r.kind != U_TRUNC || ret.InvalidSequencesCount == count0, "[KF-C12-utf16-unexpected-end-count] the UnexpectedEnd result still reports the number of replacements made so far"); \
  /* an ill-formed sequence whose lead announces more units than the input still holds may be reported as UnexpectedEnd at its start
     (the caller - e.g. the chunked stream reader - decides with more data), provided the rest of the input holds no well-formed start */ \
  _Bool ue_allowed = r.kind == U_BAD && DECL_##INTAG(w) > w.remaining && NO_SWALLOW(INTAG, w, w.remaining); \
  _Bool ue_outcome = rc == 2 && ret.ErrorCode == UtfEncodingErrorCode_UnexpectedEnd && ret.Iterator == w.win && ret.InvalidSequencesCount == count0 && out.len == len0 && out.marks == 0; \
  VERIF_ASSERT("C12", !(r.kind == U_BAD && policy == UtfEncodingErrorPolicy_Skip) || (ue_allowed && ue_outcome) || (rc == 0 && count == count0 + 1 && out.units == 0 && out.marks == (mark ? 1u : 0u) && out.len == len0 + (mark ? out.mark_len : 0)), \
     "Skip policy: an ill-formed sequence is counted once and replaced by exactly one error mark, no code unit of it is propagated"); \
  VERIF_ASSERT("C12", !(r.kind == U_BAD && policy == UtfEncodingErrorPolicy_Skip && rc == 0) || NO_SWALLOW(INTAG, w, consumed), \
     "Skip policy: the replaced ill-formed sequence does not swallow a following unit that starts a well-formed sequence (the text around it is preserved)"); \
  VERIF_ASSERT("C12", !(r.kind == U_BAD && policy == UtfEncodingErrorPolicy_ThrowError) || (ue_allowed && ue_outcome) || (rc == 2 && ret.ErrorCode == UtfEncodingErrorCode_InvalidSequence && ret.Iterator == w.win && ret.InvalidSequencesCount == count0 + 1 && out.len == len0 && out.marks == 0), \
     "ThrowError policy: an ill-formed sequence fails the operation with InvalidSequence positioned at its start"); \
  VERIF_CANARY(); }

#define END_BYVAL e.end = &end;
#define END_BYREF_NONE (void)end;   /* these loop bodies never look at `end` */
#define END_BYREF(INUNIT) const INUNIT* const* endp = &end; e.end = &endp;
H_STEP_FULL(u8_u16, N_U8D16, c8, char, c16, uint16_t, utf16_enc, UtfEncodingResult_pkc8, END_BYVAL)
H_STEP_FULL(u8_u32, N_U8D32, c8, char, c32, uint32_t, utf32_enc, UtfEncodingResult_pkc8, END_BYVAL)
H_STEP_FULL(u16_u8, N_U16E8, c16, uint16_t, c8, char, utf8_enc, UtfEncodingResult_pkc16, END_BYREF(uint16_t))
H_STEP_FULL(u16_u32, N_U16D32, c16, uint16_t, c32, uint32_t, utf32_enc, UtfEncodingResult_pkc16, END_BYREF(uint16_t))

/* UTF-32 sources */
H_STEP_FULL(u32_u8, N_U32E8, c32, uint32_t, c8, char, utf8_enc, UtfEncodingResult_pkc32, END_BYREF_NONE)
H_STEP_FULL(u32_u16, N_U32E16, c32, uint32_t, c16, uint16_t, utf16_enc, UtfEncodingResult_pkc32, END_BYREF_NONE)

/* same-width copy UTF-16 -> UTF-16 (C12 excludes same-width conversions; C11: copied verbatim, a pair is never split at the end) */
void h_step_u16_u16(void) {
  struct uwin_c16 w; uwin_c16_init(&w); const uint16_t* in = w.win; const uint16_t* end = w.end; const uint16_t* const* endp = &end;
  vstr_c16 out; ustr_c16_init(&out, 0); vstr_c16* outp = &out; size_t len0 = out.len;
  struct UtfEncodingResult_pkc16 ret; ret.ErrorCode = -1; ret.Iterator = 0; ret.InvalidSequencesCount = 0;
  ENV(N_U16D16) e; e.in = &in; e.end = &endp; e.outStr = &outp; e.__ret = &ret; __verif_exc = 0;
  int rc = BODY(N_U16D16)(&e);
  ustep r = REF_c16(w, 0); size_t consumed = (size_t)(in - w.win);
  VERIF_ASSERT("C11,C02", (rc == 0 || rc == 2) && __verif_exc == 0 && (rc != 0 || consumed == 1), "one step consumes exactly one UTF-16 code unit and never raises");
  VERIF_ASSERT("C11", !(r.kind == U_OK) || (rc == 0 && out.units == 1 && out.len == len0 + 1 && out.win[0] == w.wb[0]), "well-formed UTF-16 is copied verbatim, unit by unit");
  VERIF_CANARY(); }

/*@jobs
for S in u8_u16 u8_u32 u16_u8 u16_u32:
  job entry=h_step_{S} props=C11,C12,C13,C02 mode=direct unwind=9 kf=KF-C12-utf16-unexpected-end-count
for S in u32_u8 u32_u16:
  job entry=h_step_{S} props=C11,C12,C13,C02 mode=direct unwind=9
job entry=h_step_u16_u16 props=C11,C02 mode=direct unwind=9
@*/
