// Native replay for utf_transcode: rebuilds the input from the counterexample's look-ahead window, runs the REAL transcoder on it (under
// ASan/UBSan: an out-of-bounds read is a reproduction) and compares the output with a reference transcoder that is the fold of the
// per-character specification (spec/utf_spec.h): every ill-formed code unit becomes one mark; runs of marks are collapsed on both sides
// because the number of marks per ill-formed run is not fixed by the property.
#include "bitserializer/conversion_detail/convert_utf.h"
#include <cstdio>
#include <string>
#include <vector>
#include "replay/replay_util.h"
extern "C" {
#include "spec/utf_spec.h"
}
using namespace BitSerializer::Convert::Utf;
static const uint32_t MARK = 0xFFFFFFFFu;   // abstract mark in the scalar domain
template <class U, class F> static std::vector<uint32_t> refScalars(const std::vector<U>& in, F ref, bool& trunc) {
  std::vector<uint32_t> out; size_t i = 0; trunc = false;
  while (i < in.size()) { ustep r = ref(in.data() + i, in.size() - i); if (r.kind == U_OK) { out.push_back(r.scalar); i += r.len; } else if (r.kind == U_TRUNC) { trunc = true; break; } else { if (out.empty() || out.back() != MARK) out.push_back(MARK); i += 1; } }
  return out;
}
template <class U, class F> static std::vector<uint32_t> outScalars(const std::basic_string<U>& s, F ref, const std::basic_string<U>& mark, bool& illformed) {
  std::vector<uint32_t> out; size_t i = 0; illformed = false;
  while (i < s.size()) { if (!mark.empty() && s.compare(i, mark.size(), mark) == 0) { if (out.empty() || out.back() != MARK) out.push_back(MARK); i += mark.size(); continue; }
    ustep r = ref(s.data() + i, s.size() - i); if (r.kind != U_OK) { illformed = true; break; } out.push_back(r.scalar); i += r.len; }
  return out;
}
static ustep ref8(const char* p, size_t n) { return utf8_ref((const unsigned char*)p, n); }
static ustep ref16(const char16_t* p, size_t n) { return utf16_ref((const uint16_t*)p, n); }
static ustep ref32(const char32_t* p, size_t n) { return utf32_ref((const uint32_t*)p, n); }
template <class IU, class OU, class RI, class RO, class FN> static bool runCase(ReplayDoc& D, RI refIn, RO refOut, FN fn, const std::basic_string<OU>& mark) {
  size_t rem = D.u64("w.remaining"); if (rem > 8) { printf("remaining=%zu exceeds the materialised window\n", rem); return false; }
  std::vector<IU>* in = new std::vector<IU>(rem);   // exact-size heap block so that ASan sees any overrun
  for (size_t k = 0; k < rem; k++) { unsigned char lo = 0; uint64_t v = 0; std::string key; for (const char* suf : {"", "l", "ul"}) { key = "w.wb[" + std::to_string(k) + suf + "]"; if (D.has(key)) { v = D.u64(key); break; } } (void)lo; (*in)[k] = (IU)v; }
  bool throwPolicy = D.u64("policy") != 0;
  std::basic_string<OU> out; auto res = fn(in->data(), in->data() + in->size(), out, throwPolicy ? UtfEncodingErrorPolicy::ThrowError : UtfEncodingErrorPolicy::Skip, mark.c_str());
  bool trunc, ill; auto ref = refScalars(*in, refIn, trunc); auto got = outScalars(out, refOut, mark, ill);
  printf("input units:"); for (auto u : *in) printf(" %X", (unsigned)u); printf("  result code=%d consumed=%zd errors=%zu output units:", (int)res.ErrorCode, (ssize_t)(res.Iterator - in->data()), res.InvalidSequencesCount); for (auto u : out) printf(" %X", (unsigned)(std::make_unsigned_t<OU>)u); printf("\n");
  if (ill) return true;                                           // output not well-formed in the target encoding
  if (throwPolicy) { bool hasBad = false; for (auto s : ref) hasBad |= s == MARK; if (hasBad != (res.ErrorCode == UtfEncodingErrorCode::InvalidSequence) && !trunc) return true; return false; }
  if (res.ErrorCode == UtfEncodingErrorCode::UnexpectedEnd) { if (!trunc) { /* allowed only for an ill-formed tail that announces more units than remain */ return false; } ref.resize(got.size() <= ref.size() ? got.size() : ref.size()); }
  return got != ref;
}
int main(int argc, char** argv) {
  ReplayDoc D; if (argc < 2 || !D.load(argv[1])) { puts("cannot read replay file"); return 2; }
  std::string e = D.entry; bool bad = false;
  if (e == "h_step_u8_u16") bad = runCase<char, char16_t>(D, ref8, ref16, [](auto a, auto b, auto& o, auto p, auto m) { return Utf8::Decode(a, b, o, p, m); }, std::u16string(u"☐"));
  else if (e == "h_step_u8_u32") bad = runCase<char, char32_t>(D, ref8, ref32, [](auto a, auto b, auto& o, auto p, auto m) { return Utf8::Decode(a, b, o, p, m); }, std::u32string(U"☐"));
  else if (e == "h_step_u16_u8") bad = runCase<char16_t, char>(D, ref16, ref8, [](auto a, auto b, auto& o, auto p, auto m) { return Utf8::Encode(a, b, o, p, m); }, std::string("\xE2\x98\x90"));
  else if (e == "h_step_u32_u8") bad = runCase<char32_t, char>(D, ref32, ref8, [](auto a, auto b, auto& o, auto p, auto m) { return Utf8::Encode(a, b, o, p, m); }, std::string("\xE2\x98\x90"));
  else if (e == "h_step_u16_u32") bad = runCase<char16_t, char32_t>(D, ref16, ref32, [](auto a, auto b, auto& o, auto p, auto m) { return Utf16::Decode(a, b, o, p, m); }, std::u32string(U"☐"));
  else if (e == "h_step_u32_u16") bad = runCase<char32_t, char16_t>(D, ref32, ref16, [](auto a, auto b, auto& o, auto p, auto m) { return Utf16::Encode(a, b, o, p, m); }, std::u16string(u"☐"));
  else if (e == "h_step_u16_u16") bad = runCase<char16_t, char16_t>(D, ref16, ref16, [](auto a, auto b, auto& o, auto p, auto m) { return Utf16::Decode(a, b, o, p, m); }, std::u16string(u"☐"));
  else { puts("unknown harness"); return 2; }
  puts(bad ? "REPRODUCED: the real transcoder disagrees with the Unicode reference transcoder" : "NOT-REPRODUCED");
  return 0;
}
