/* Contracts + harnesses for BitSerializer::Convert::Detail::To<TSource,TTarget> (convert_fundamental.h:20-66), all 14x14 arithmetic pairs.
   Route R2, loop-free, full 2^64 / all-bit-pattern domain per pair.  Postcondition (C04): the target receives exactly the same
   mathematical value, or (floating target, in-range source of higher precision) the nearest representable value; otherwise
   std::out_of_range is raised and the target is bit-identical to before; floating -> integral is always std::invalid_argument. */
#include "models/prelude.h"
long long nondet_longlong(void); unsigned long long nondet_ulonglong(void);
#include "gen.h"
#include "spec/num_spec.h"
#include "gen.c"

#define CALL(S, T, s, t) verif_inst_conv_##S##_##T##__rk##S##_r##T(&(s), &(t))

/* integral/bool/char -> integral/bool/char */
#define H_II(S, CS, NS, T, CT, NT, TMIN, TMAX) \
void h_##S##_##T(void) { CS s = NS(); CT t0 = NT(); CT t = t0; __verif_exc = 0; CALL(S, T, s, t); \
  _Bool fits = (mint)s >= (mint)(TMIN) && (mint)s <= (mint)(TMAX); \
  VERIF_ASSERT("C04", !fits || (__verif_exc == 0 && (mint)t == (mint)s), "a source value the target type can represent is stored exactly"); \
  VERIF_ASSERT("C04", fits || (__verif_exc == EXC_std_out_of_range && t == t0), "a value the target cannot represent raises std::out_of_range and leaves the target untouched (never wrapped, truncated or sign-changed)"); \
  VERIF_CANARY(); }

/* integral -> floating */
/* CBMC 6.11's float->signed-integer conversion check misfires at exactly -2^(N-1) (its guard is the strict 'value > -0x1p63'; (long)(-0x1p63) is representable; UBSan on
   the real code agrees there is no UB).  The *_ub jobs therefore run the UB check for every source value except those whose floating image is exactly -2^(N-1); the contract
   obligations are proved for the full domain by the plain jobs. */
_Bool verif_excl_min;
#define H_IF(S, CS, NS, T, CT, NT, MANT, SMIN) \
void h_##S##_##T(void) { CS s = NS(); if (verif_excl_min) __CPROVER_assume((CT)s != (CT)(SMIN)); /* float->int UB check excludes sources that round to exactly -2^(N-1), which is representable (tool imprecision, see comment) */ \
  CT t0 = NT(); CT t = t0; __verif_exc = 0; CALL(S, T, s, t); \
  _Bool exact = mint_fits_fp((mint)s, MANT); \
  VERIF_ASSERT("C04", !exact || (__verif_exc == 0 && t == (CT)s && (mint)t == (mint)s), "an integer exactly representable in the floating target is stored exactly"); \
  VERIF_ASSERT("C04", __verif_exc == 0 || (__verif_exc == EXC_std_out_of_range && !exact && memcmp(&t, &t0, sizeof t) == 0), "otherwise std::out_of_range, target untouched"); \
  VERIF_ASSERT("C04", __verif_exc != 0 || t == (CT)s, "a stored value is the correctly rounded (nearest) value of the source"); \
  VERIF_CANARY(); } \
void h_ub_##S##_##T(void) { verif_excl_min = 1; h_##S##_##T(); }

/* floating -> integral/bool: never converted */
#define H_FI(S, CS, NS, T, CT, NT) \
void h_##S##_##T(void) { CS s = NS(); CT t0 = NT(); CT t = t0; __verif_exc = 0; CALL(S, T, s, t); \
  VERIF_ASSERT("C04", __verif_exc == EXC_std_invalid_argument && t == t0, "a floating-point source is never truncated into an integral target: std::invalid_argument, target untouched"); \
  VERIF_CANARY(); }

/* floating -> floating */
#define H_FF_SAME(S, CS, NS) \
void h_##S##_##S(void) { CS s = NS(); CS t0 = NS(); CS t = t0; __verif_exc = 0; CALL(S, S, s, t); \
  VERIF_ASSERT("C04", __verif_exc == 0 && memcmp(&t, &s, sizeof t) == 0, "same type: bit-identical copy"); VERIF_CANARY(); }
void h_f32_f64(void) { float s = nondet_float(); double t0 = nondet_double(); double t = t0; __verif_exc = 0; CALL(f32, f64, s, t);
  VERIF_ASSERT("C04", __verif_exc == 0 && ((s != s && t != t) || t == (double)s), "float -> double is exact for every value (NaN stays NaN)"); VERIF_CANARY(); }
void h_f64_f32(void) { double s = nondet_double(); float t0 = nondet_float(); float t = t0; __verif_exc = 0; CALL(f64, f32, s, t);
  uint64_t sb; memcpy(&sb, &s, 8); _Bool finite = f64_is_finite_bits(sb);
  _Bool in_range = finite && s >= -0x1.fffffep+127 && s <= 0x1.fffffep+127;
  VERIF_ASSERT("C04", !in_range || (__verif_exc == 0 && t == (float)s), "an in-range finite double is stored as the nearest float");
  VERIF_ASSERT("C04", !(finite && !in_range) || (__verif_exc == EXC_std_out_of_range && memcmp(&t, &t0, 4) == 0), "a finite double beyond the float range raises std::out_of_range, target untouched");
  VERIF_ASSERT("C04", finite || (__verif_exc == 0 ? (t == (float)s || (s != s && t != t)) : (__verif_exc == EXC_std_out_of_range && memcmp(&t, &t0, 4) == 0)), "infinities/NaN are either stored as such or reported, never turned into a finite number");
  VERIF_CANARY(); }
H_FF_SAME(f32, float, nondet_float)
H_FF_SAME(f64, double, nondet_double)
H_II(b, _Bool, nondet_bool, b, _Bool, nondet_bool, 0, 1)
H_II(b, _Bool, nondet_bool, c8, char, nondet_char, -128, 127)
H_II(b, _Bool, nondet_bool, i8, signed char, nondet_schar, -128, 127)
H_II(b, _Bool, nondet_bool, u8, unsigned char, nondet_uchar, 0, 255)
H_II(b, _Bool, nondet_bool, i16, short, nondet_short, -32768, 32767)
H_II(b, _Bool, nondet_bool, u16, unsigned short, nondet_ushort, 0, 65535)
H_II(b, _Bool, nondet_bool, i32, int, nondet_int, -2147483648LL, 2147483647LL)
H_II(b, _Bool, nondet_bool, u32, unsigned int, nondet_uint, 0, 4294967295LL)
H_II(b, _Bool, nondet_bool, i64, long, nondet_long, (-(mint)9223372036854775807LL-1), (mint)9223372036854775807LL)
H_II(b, _Bool, nondet_bool, u64, unsigned long, nondet_ulong, 0, (mint)18446744073709551615ULL)
H_II(b, _Bool, nondet_bool, ill, long long, nondet_longlong, (-(mint)9223372036854775807LL-1), (mint)9223372036854775807LL)
H_II(b, _Bool, nondet_bool, ull, unsigned long long, nondet_ulonglong, 0, (mint)18446744073709551615ULL)
H_IF(b, _Bool, nondet_bool, f32, float, nondet_float, 24, 0)
H_IF(b, _Bool, nondet_bool, f64, double, nondet_double, 53, 0)
H_II(c8, char, nondet_char, b, _Bool, nondet_bool, 0, 1)
H_II(c8, char, nondet_char, c8, char, nondet_char, -128, 127)
H_II(c8, char, nondet_char, i8, signed char, nondet_schar, -128, 127)
H_II(c8, char, nondet_char, u8, unsigned char, nondet_uchar, 0, 255)
H_II(c8, char, nondet_char, i16, short, nondet_short, -32768, 32767)
H_II(c8, char, nondet_char, u16, unsigned short, nondet_ushort, 0, 65535)
H_II(c8, char, nondet_char, i32, int, nondet_int, -2147483648LL, 2147483647LL)
H_II(c8, char, nondet_char, u32, unsigned int, nondet_uint, 0, 4294967295LL)
H_II(c8, char, nondet_char, i64, long, nondet_long, (-(mint)9223372036854775807LL-1), (mint)9223372036854775807LL)
H_II(c8, char, nondet_char, u64, unsigned long, nondet_ulong, 0, (mint)18446744073709551615ULL)
H_II(c8, char, nondet_char, ill, long long, nondet_longlong, (-(mint)9223372036854775807LL-1), (mint)9223372036854775807LL)
H_II(c8, char, nondet_char, ull, unsigned long long, nondet_ulonglong, 0, (mint)18446744073709551615ULL)
H_IF(c8, char, nondet_char, f32, float, nondet_float, 24, -128)
H_IF(c8, char, nondet_char, f64, double, nondet_double, 53, -128)
H_II(i8, signed char, nondet_schar, b, _Bool, nondet_bool, 0, 1)
H_II(i8, signed char, nondet_schar, c8, char, nondet_char, -128, 127)
H_II(i8, signed char, nondet_schar, i8, signed char, nondet_schar, -128, 127)
H_II(i8, signed char, nondet_schar, u8, unsigned char, nondet_uchar, 0, 255)
H_II(i8, signed char, nondet_schar, i16, short, nondet_short, -32768, 32767)
H_II(i8, signed char, nondet_schar, u16, unsigned short, nondet_ushort, 0, 65535)
H_II(i8, signed char, nondet_schar, i32, int, nondet_int, -2147483648LL, 2147483647LL)
H_II(i8, signed char, nondet_schar, u32, unsigned int, nondet_uint, 0, 4294967295LL)
H_II(i8, signed char, nondet_schar, i64, long, nondet_long, (-(mint)9223372036854775807LL-1), (mint)9223372036854775807LL)
H_II(i8, signed char, nondet_schar, u64, unsigned long, nondet_ulong, 0, (mint)18446744073709551615ULL)
H_II(i8, signed char, nondet_schar, ill, long long, nondet_longlong, (-(mint)9223372036854775807LL-1), (mint)9223372036854775807LL)
H_II(i8, signed char, nondet_schar, ull, unsigned long long, nondet_ulonglong, 0, (mint)18446744073709551615ULL)
H_IF(i8, signed char, nondet_schar, f32, float, nondet_float, 24, -128)
H_IF(i8, signed char, nondet_schar, f64, double, nondet_double, 53, -128)
H_II(u8, unsigned char, nondet_uchar, b, _Bool, nondet_bool, 0, 1)
H_II(u8, unsigned char, nondet_uchar, c8, char, nondet_char, -128, 127)
H_II(u8, unsigned char, nondet_uchar, i8, signed char, nondet_schar, -128, 127)
H_II(u8, unsigned char, nondet_uchar, u8, unsigned char, nondet_uchar, 0, 255)
H_II(u8, unsigned char, nondet_uchar, i16, short, nondet_short, -32768, 32767)
H_II(u8, unsigned char, nondet_uchar, u16, unsigned short, nondet_ushort, 0, 65535)
H_II(u8, unsigned char, nondet_uchar, i32, int, nondet_int, -2147483648LL, 2147483647LL)
H_II(u8, unsigned char, nondet_uchar, u32, unsigned int, nondet_uint, 0, 4294967295LL)
H_II(u8, unsigned char, nondet_uchar, i64, long, nondet_long, (-(mint)9223372036854775807LL-1), (mint)9223372036854775807LL)
H_II(u8, unsigned char, nondet_uchar, u64, unsigned long, nondet_ulong, 0, (mint)18446744073709551615ULL)
H_II(u8, unsigned char, nondet_uchar, ill, long long, nondet_longlong, (-(mint)9223372036854775807LL-1), (mint)9223372036854775807LL)
H_II(u8, unsigned char, nondet_uchar, ull, unsigned long long, nondet_ulonglong, 0, (mint)18446744073709551615ULL)
H_IF(u8, unsigned char, nondet_uchar, f32, float, nondet_float, 24, 0)
H_IF(u8, unsigned char, nondet_uchar, f64, double, nondet_double, 53, 0)
H_II(i16, short, nondet_short, b, _Bool, nondet_bool, 0, 1)
H_II(i16, short, nondet_short, c8, char, nondet_char, -128, 127)
H_II(i16, short, nondet_short, i8, signed char, nondet_schar, -128, 127)
H_II(i16, short, nondet_short, u8, unsigned char, nondet_uchar, 0, 255)
H_II(i16, short, nondet_short, i16, short, nondet_short, -32768, 32767)
H_II(i16, short, nondet_short, u16, unsigned short, nondet_ushort, 0, 65535)
H_II(i16, short, nondet_short, i32, int, nondet_int, -2147483648LL, 2147483647LL)
H_II(i16, short, nondet_short, u32, unsigned int, nondet_uint, 0, 4294967295LL)
H_II(i16, short, nondet_short, i64, long, nondet_long, (-(mint)9223372036854775807LL-1), (mint)9223372036854775807LL)
H_II(i16, short, nondet_short, u64, unsigned long, nondet_ulong, 0, (mint)18446744073709551615ULL)
H_II(i16, short, nondet_short, ill, long long, nondet_longlong, (-(mint)9223372036854775807LL-1), (mint)9223372036854775807LL)
H_II(i16, short, nondet_short, ull, unsigned long long, nondet_ulonglong, 0, (mint)18446744073709551615ULL)
H_IF(i16, short, nondet_short, f32, float, nondet_float, 24, -32768)
H_IF(i16, short, nondet_short, f64, double, nondet_double, 53, -32768)
H_II(u16, unsigned short, nondet_ushort, b, _Bool, nondet_bool, 0, 1)
H_II(u16, unsigned short, nondet_ushort, c8, char, nondet_char, -128, 127)
H_II(u16, unsigned short, nondet_ushort, i8, signed char, nondet_schar, -128, 127)
H_II(u16, unsigned short, nondet_ushort, u8, unsigned char, nondet_uchar, 0, 255)
H_II(u16, unsigned short, nondet_ushort, i16, short, nondet_short, -32768, 32767)
H_II(u16, unsigned short, nondet_ushort, u16, unsigned short, nondet_ushort, 0, 65535)
H_II(u16, unsigned short, nondet_ushort, i32, int, nondet_int, -2147483648LL, 2147483647LL)
H_II(u16, unsigned short, nondet_ushort, u32, unsigned int, nondet_uint, 0, 4294967295LL)
H_II(u16, unsigned short, nondet_ushort, i64, long, nondet_long, (-(mint)9223372036854775807LL-1), (mint)9223372036854775807LL)
H_II(u16, unsigned short, nondet_ushort, u64, unsigned long, nondet_ulong, 0, (mint)18446744073709551615ULL)
H_II(u16, unsigned short, nondet_ushort, ill, long long, nondet_longlong, (-(mint)9223372036854775807LL-1), (mint)9223372036854775807LL)
H_II(u16, unsigned short, nondet_ushort, ull, unsigned long long, nondet_ulonglong, 0, (mint)18446744073709551615ULL)
H_IF(u16, unsigned short, nondet_ushort, f32, float, nondet_float, 24, 0)
H_IF(u16, unsigned short, nondet_ushort, f64, double, nondet_double, 53, 0)
H_II(i32, int, nondet_int, b, _Bool, nondet_bool, 0, 1)
H_II(i32, int, nondet_int, c8, char, nondet_char, -128, 127)
H_II(i32, int, nondet_int, i8, signed char, nondet_schar, -128, 127)
H_II(i32, int, nondet_int, u8, unsigned char, nondet_uchar, 0, 255)
H_II(i32, int, nondet_int, i16, short, nondet_short, -32768, 32767)
H_II(i32, int, nondet_int, u16, unsigned short, nondet_ushort, 0, 65535)
H_II(i32, int, nondet_int, i32, int, nondet_int, -2147483648LL, 2147483647LL)
H_II(i32, int, nondet_int, u32, unsigned int, nondet_uint, 0, 4294967295LL)
H_II(i32, int, nondet_int, i64, long, nondet_long, (-(mint)9223372036854775807LL-1), (mint)9223372036854775807LL)
H_II(i32, int, nondet_int, u64, unsigned long, nondet_ulong, 0, (mint)18446744073709551615ULL)
H_II(i32, int, nondet_int, ill, long long, nondet_longlong, (-(mint)9223372036854775807LL-1), (mint)9223372036854775807LL)
H_II(i32, int, nondet_int, ull, unsigned long long, nondet_ulonglong, 0, (mint)18446744073709551615ULL)
H_IF(i32, int, nondet_int, f32, float, nondet_float, 24, -2147483648LL)
H_IF(i32, int, nondet_int, f64, double, nondet_double, 53, -2147483648LL)
H_II(u32, unsigned int, nondet_uint, b, _Bool, nondet_bool, 0, 1)
H_II(u32, unsigned int, nondet_uint, c8, char, nondet_char, -128, 127)
H_II(u32, unsigned int, nondet_uint, i8, signed char, nondet_schar, -128, 127)
H_II(u32, unsigned int, nondet_uint, u8, unsigned char, nondet_uchar, 0, 255)
H_II(u32, unsigned int, nondet_uint, i16, short, nondet_short, -32768, 32767)
H_II(u32, unsigned int, nondet_uint, u16, unsigned short, nondet_ushort, 0, 65535)
H_II(u32, unsigned int, nondet_uint, i32, int, nondet_int, -2147483648LL, 2147483647LL)
H_II(u32, unsigned int, nondet_uint, u32, unsigned int, nondet_uint, 0, 4294967295LL)
H_II(u32, unsigned int, nondet_uint, i64, long, nondet_long, (-(mint)9223372036854775807LL-1), (mint)9223372036854775807LL)
H_II(u32, unsigned int, nondet_uint, u64, unsigned long, nondet_ulong, 0, (mint)18446744073709551615ULL)
H_II(u32, unsigned int, nondet_uint, ill, long long, nondet_longlong, (-(mint)9223372036854775807LL-1), (mint)9223372036854775807LL)
H_II(u32, unsigned int, nondet_uint, ull, unsigned long long, nondet_ulonglong, 0, (mint)18446744073709551615ULL)
H_IF(u32, unsigned int, nondet_uint, f32, float, nondet_float, 24, 0)
H_IF(u32, unsigned int, nondet_uint, f64, double, nondet_double, 53, 0)
H_II(i64, long, nondet_long, b, _Bool, nondet_bool, 0, 1)
H_II(i64, long, nondet_long, c8, char, nondet_char, -128, 127)
H_II(i64, long, nondet_long, i8, signed char, nondet_schar, -128, 127)
H_II(i64, long, nondet_long, u8, unsigned char, nondet_uchar, 0, 255)
H_II(i64, long, nondet_long, i16, short, nondet_short, -32768, 32767)
H_II(i64, long, nondet_long, u16, unsigned short, nondet_ushort, 0, 65535)
H_II(i64, long, nondet_long, i32, int, nondet_int, -2147483648LL, 2147483647LL)
H_II(i64, long, nondet_long, u32, unsigned int, nondet_uint, 0, 4294967295LL)
H_II(i64, long, nondet_long, i64, long, nondet_long, (-(mint)9223372036854775807LL-1), (mint)9223372036854775807LL)
H_II(i64, long, nondet_long, u64, unsigned long, nondet_ulong, 0, (mint)18446744073709551615ULL)
H_II(i64, long, nondet_long, ill, long long, nondet_longlong, (-(mint)9223372036854775807LL-1), (mint)9223372036854775807LL)
H_II(i64, long, nondet_long, ull, unsigned long long, nondet_ulonglong, 0, (mint)18446744073709551615ULL)
H_IF(i64, long, nondet_long, f32, float, nondet_float, 24, (-(mint)9223372036854775807LL-1))
H_IF(i64, long, nondet_long, f64, double, nondet_double, 53, (-(mint)9223372036854775807LL-1))
H_II(u64, unsigned long, nondet_ulong, b, _Bool, nondet_bool, 0, 1)
H_II(u64, unsigned long, nondet_ulong, c8, char, nondet_char, -128, 127)
H_II(u64, unsigned long, nondet_ulong, i8, signed char, nondet_schar, -128, 127)
H_II(u64, unsigned long, nondet_ulong, u8, unsigned char, nondet_uchar, 0, 255)
H_II(u64, unsigned long, nondet_ulong, i16, short, nondet_short, -32768, 32767)
H_II(u64, unsigned long, nondet_ulong, u16, unsigned short, nondet_ushort, 0, 65535)
H_II(u64, unsigned long, nondet_ulong, i32, int, nondet_int, -2147483648LL, 2147483647LL)
H_II(u64, unsigned long, nondet_ulong, u32, unsigned int, nondet_uint, 0, 4294967295LL)
H_II(u64, unsigned long, nondet_ulong, i64, long, nondet_long, (-(mint)9223372036854775807LL-1), (mint)9223372036854775807LL)
H_II(u64, unsigned long, nondet_ulong, u64, unsigned long, nondet_ulong, 0, (mint)18446744073709551615ULL)
H_II(u64, unsigned long, nondet_ulong, ill, long long, nondet_longlong, (-(mint)9223372036854775807LL-1), (mint)9223372036854775807LL)
H_II(u64, unsigned long, nondet_ulong, ull, unsigned long long, nondet_ulonglong, 0, (mint)18446744073709551615ULL)
H_IF(u64, unsigned long, nondet_ulong, f32, float, nondet_float, 24, 0)
H_IF(u64, unsigned long, nondet_ulong, f64, double, nondet_double, 53, 0)
H_II(ill, long long, nondet_longlong, b, _Bool, nondet_bool, 0, 1)
H_II(ill, long long, nondet_longlong, c8, char, nondet_char, -128, 127)
H_II(ill, long long, nondet_longlong, i8, signed char, nondet_schar, -128, 127)
H_II(ill, long long, nondet_longlong, u8, unsigned char, nondet_uchar, 0, 255)
H_II(ill, long long, nondet_longlong, i16, short, nondet_short, -32768, 32767)
H_II(ill, long long, nondet_longlong, u16, unsigned short, nondet_ushort, 0, 65535)
H_II(ill, long long, nondet_longlong, i32, int, nondet_int, -2147483648LL, 2147483647LL)
H_II(ill, long long, nondet_longlong, u32, unsigned int, nondet_uint, 0, 4294967295LL)
H_II(ill, long long, nondet_longlong, i64, long, nondet_long, (-(mint)9223372036854775807LL-1), (mint)9223372036854775807LL)
H_II(ill, long long, nondet_longlong, u64, unsigned long, nondet_ulong, 0, (mint)18446744073709551615ULL)
H_II(ill, long long, nondet_longlong, ill, long long, nondet_longlong, (-(mint)9223372036854775807LL-1), (mint)9223372036854775807LL)
H_II(ill, long long, nondet_longlong, ull, unsigned long long, nondet_ulonglong, 0, (mint)18446744073709551615ULL)
H_IF(ill, long long, nondet_longlong, f32, float, nondet_float, 24, (-(mint)9223372036854775807LL-1))
H_IF(ill, long long, nondet_longlong, f64, double, nondet_double, 53, (-(mint)9223372036854775807LL-1))
H_II(ull, unsigned long long, nondet_ulonglong, b, _Bool, nondet_bool, 0, 1)
H_II(ull, unsigned long long, nondet_ulonglong, c8, char, nondet_char, -128, 127)
H_II(ull, unsigned long long, nondet_ulonglong, i8, signed char, nondet_schar, -128, 127)
H_II(ull, unsigned long long, nondet_ulonglong, u8, unsigned char, nondet_uchar, 0, 255)
H_II(ull, unsigned long long, nondet_ulonglong, i16, short, nondet_short, -32768, 32767)
H_II(ull, unsigned long long, nondet_ulonglong, u16, unsigned short, nondet_ushort, 0, 65535)
H_II(ull, unsigned long long, nondet_ulonglong, i32, int, nondet_int, -2147483648LL, 2147483647LL)
H_II(ull, unsigned long long, nondet_ulonglong, u32, unsigned int, nondet_uint, 0, 4294967295LL)
H_II(ull, unsigned long long, nondet_ulonglong, i64, long, nondet_long, (-(mint)9223372036854775807LL-1), (mint)9223372036854775807LL)
H_II(ull, unsigned long long, nondet_ulonglong, u64, unsigned long, nondet_ulong, 0, (mint)18446744073709551615ULL)
H_II(ull, unsigned long long, nondet_ulonglong, ill, long long, nondet_longlong, (-(mint)9223372036854775807LL-1), (mint)9223372036854775807LL)
H_II(ull, unsigned long long, nondet_ulonglong, ull, unsigned long long, nondet_ulonglong, 0, (mint)18446744073709551615ULL)
H_IF(ull, unsigned long long, nondet_ulonglong, f32, float, nondet_float, 24, 0)
H_IF(ull, unsigned long long, nondet_ulonglong, f64, double, nondet_double, 53, 0)
H_FI(f32, float, nondet_float, b, _Bool, nondet_bool)
H_FI(f32, float, nondet_float, c8, char, nondet_char)
H_FI(f32, float, nondet_float, i8, signed char, nondet_schar)
H_FI(f32, float, nondet_float, u8, unsigned char, nondet_uchar)
H_FI(f32, float, nondet_float, i16, short, nondet_short)
H_FI(f32, float, nondet_float, u16, unsigned short, nondet_ushort)
H_FI(f32, float, nondet_float, i32, int, nondet_int)
H_FI(f32, float, nondet_float, u32, unsigned int, nondet_uint)
H_FI(f32, float, nondet_float, i64, long, nondet_long)
H_FI(f32, float, nondet_float, u64, unsigned long, nondet_ulong)
H_FI(f32, float, nondet_float, ill, long long, nondet_longlong)
H_FI(f32, float, nondet_float, ull, unsigned long long, nondet_ulonglong)
H_FI(f64, double, nondet_double, b, _Bool, nondet_bool)
H_FI(f64, double, nondet_double, c8, char, nondet_char)
H_FI(f64, double, nondet_double, i8, signed char, nondet_schar)
H_FI(f64, double, nondet_double, u8, unsigned char, nondet_uchar)
H_FI(f64, double, nondet_double, i16, short, nondet_short)
H_FI(f64, double, nondet_double, u16, unsigned short, nondet_ushort)
H_FI(f64, double, nondet_double, i32, int, nondet_int)
H_FI(f64, double, nondet_double, u32, unsigned int, nondet_uint)
H_FI(f64, double, nondet_double, i64, long, nondet_long)
H_FI(f64, double, nondet_double, u64, unsigned long, nondet_ulong)
H_FI(f64, double, nondet_double, ill, long long, nondet_longlong)
H_FI(f64, double, nondet_double, ull, unsigned long long, nondet_ulonglong)

/*@jobs
for S in b c8 i8 u8 i16 u16 i32 u32 i64 u64 ill ull:
  for T in b c8 i8 u8 i16 u16 i32 u32 i64 u64 ill ull:
    job entry=h_{S}_{T} props=C04 mode=direct unwind=70
for S in b u8 u16 u32 u64 ull:
  for T in f32 f64:
    job entry=h_{S}_{T} props=C04 mode=direct unwind=70 flags=--conversion-check
for S in c8 i8 i16 i32 i64 ill:
  for T in f32 f64:
    job entry=h_{S}_{T} props=C04 mode=direct unwind=70
    job entry=h_ub_{S}_{T} props=C02 mode=direct unwind=70 flags=--conversion-check
for S in f32 f64:
  for T in b c8 i8 u8 i16 u16 i32 u32 i64 u64 ill ull f32 f64:
    job entry=h_{S}_{T} props=C04 mode=direct unwind=70 flags=--conversion-check
@*/
