// Native replay for convert_arith: calls the REAL BitSerializer::Convert::Detail::To<S,T> on the counterexample's source value
// (built with -fsanitize=undefined,float-cast-overflow: a UB report is a reproduction) and re-evaluates the C04 postcondition natively.
#include "bitserializer/convert.h"
#include <cstdio>
#include <cstring>
#include <string>
#include <stdexcept>
#include "replay/replay_util.h"
extern "C" {
#include "spec/num_spec.h"
}
static ReplayDoc D; static bool done = false, bad = false;
template <class S> S srcValue() { S s{}; uint64_t bits = D.u64("s"); if constexpr (std::is_same_v<S, bool>) s = bits & 1; else memcpy(&s, &bits, sizeof(S)); return s; }
template <class S, class T> void runPair(const char* sn, const char* tn) {
  std::string e = std::string("h_") + sn + "_" + tn; if (D.entry != e) return; done = true;
  S s = srcValue<S>(); T t0{}; T t = t0; int exc = 0;
  try { BitSerializer::Convert::Detail::To(s, t); } catch (const std::out_of_range&) { exc = 1; } catch (const std::invalid_argument&) { exc = 2; }
  if constexpr (std::is_floating_point_v<S> && !std::is_floating_point_v<T>) bad = exc != 2 || t != t0;
  else if constexpr (!std::is_floating_point_v<S> && !std::is_floating_point_v<T>) {
    bool fits = (mint)s >= (mint)std::numeric_limits<T>::min() && (mint)s <= (mint)std::numeric_limits<T>::max();
    bad = fits ? (exc != 0 || (mint)t != (mint)s) : (exc != 1 || t != t0);
  } else if constexpr (!std::is_floating_point_v<S>) {
    bool exact = mint_fits_fp((mint)s, std::numeric_limits<T>::digits);
    bad = (exact && (exc != 0 || (mint)t != (mint)s)) || (exc != 0 && (exc != 1 || exact || memcmp(&t, &t0, sizeof t))) || (exc == 0 && t != (T)s);
  }
  printf("entry=%s exc=%d\n", e.c_str(), exc);
}
#define TYPES(X, S, SN) X(S, SN, bool, "b") X(S, SN, char, "c8") X(S, SN, signed char, "i8") X(S, SN, unsigned char, "u8") X(S, SN, short, "i16") X(S, SN, unsigned short, "u16") \
  X(S, SN, int, "i32") X(S, SN, unsigned, "u32") X(S, SN, long, "i64") X(S, SN, unsigned long, "u64") X(S, SN, long long, "ill") X(S, SN, unsigned long long, "ull") X(S, SN, float, "f32") X(S, SN, double, "f64")
#define RUN(S, SN, T, TN) runPair<S, T>(SN, TN);
int main(int argc, char** argv) {
  if (argc < 2 || !D.load(argv[1])) { puts("cannot read replay file"); return 2; }
  TYPES(RUN, bool, "b") TYPES(RUN, char, "c8") TYPES(RUN, signed char, "i8") TYPES(RUN, unsigned char, "u8") TYPES(RUN, short, "i16") TYPES(RUN, unsigned short, "u16")
  TYPES(RUN, int, "i32") TYPES(RUN, unsigned, "u32") TYPES(RUN, long, "i64") TYPES(RUN, unsigned long, "u64") TYPES(RUN, long long, "ill") TYPES(RUN, unsigned long long, "ull")
  TYPES(RUN, float, "f32") TYPES(RUN, double, "f64")
  if (!done) { puts("unknown harness"); return 2; }
  puts(bad ? "REPRODUCED: the real conversion violates the exact-or-reported contract" : "NOT-REPRODUCED");
  return 0;
}
