/* Detail::SerializeContainer<LoadScope, std::vector<int>> (generic_container.h) over an abstract load array scope holding N items and a
   vector model with ARBITRARY prior size; loop contracts close both loops for every N, every prior size and every size estimate.
   C18: after a successful load the container has exactly N elements (no stale element survives, nothing loaded is lost), item number w
   was loaded into slot number w (arbitrary witness w), each item was requested exactly once. */
#include "models/prelude.h"
static _Bool __verif_exc_oob;   /* bitset::set/test with an index >= size() throws std::out_of_range: recorded */
typedef struct { int _opaque; } std_variant_vstr_c8_vstr_wc_vstr_c16_vstr_c32;
typedef struct { int _opaque; } std_map_vstr_c8_vvec_vstr_c8_std_less_vstr_c8;
typedef struct { size_t size; unsigned resizes; } vvec_i32;
typedef struct { size_t idx; } vit_pi32_vvec_i32;
static size_t g_n, g_loaded, g_w, g_w_slot, g_deref_idx; static _Bool g_w_done; static int g_dummy; static size_t g_estimate;
static inline void vvec_i32_resize__u64(vvec_i32* v, unsigned long n) { v->size = n; v->resizes++; }
static inline vit_pi32_vvec_i32 vvec_i32_begin(vvec_i32* v) { vit_pi32_vvec_i32 it; it.idx = 0; return it; }
static inline vit_pi32_vvec_i32 vvec_i32_end(vvec_i32* v) { vit_pi32_vvec_i32 it; it.idx = v->size; return it; }
static inline _Bool m_gnu_cxx_operator_op_ne_pi32_vvec_i32__rkvit_pi32_vvec_i32_rkvit_pi32_vvec_i32(const vit_pi32_vvec_i32* a, const vit_pi32_vvec_i32* b) { return a->idx != b->idx; }
static inline vit_pi32_vvec_i32* vit_pi32_vvec_i32_op_inc(vit_pi32_vvec_i32* it) { it->idx++; return it; }
static vvec_i32* g_vec;
static inline int* vit_pi32_vvec_i32_op_star___k(const vit_pi32_vvec_i32* it) { __CPROVER_assert(it->idx < g_vec->size, "MODEL: only a valid (non-end) iterator is dereferenced"); g_deref_idx = it->idx; return &g_dummy; }
static inline int* vvec_i32_emplace_back(vvec_i32* v) { g_deref_idx = v->size; v->size++; return &g_dummy; }
/* std::vector<bool>: size + the value of ONE arbitrary witness element g_bw (all others are not tracked) */
typedef struct { size_t size; } vvec_b;
typedef struct { size_t idx; } std_Bit_iterator_base;
typedef struct { std_Bit_iterator_base __base_Bit_iterator_base; } std_Bit_iterator;
typedef struct { size_t idx; } std_Bit_reference;
static size_t g_bw; static _Bool g_elem_w; static vvec_b* g_bvec;
static inline std_Bit_iterator vvec_b_begin(vvec_b* v) { std_Bit_iterator i; i.__base_Bit_iterator_base.idx = 0; return i; }
static inline std_Bit_iterator vvec_b_end(vvec_b* v) { std_Bit_iterator i; i.__base_Bit_iterator_base.idx = v->size; return i; }
static inline _Bool m_std_operator_op_ne__rkstd_Bit_iterator_base_rkstd_Bit_iterator_base(const std_Bit_iterator_base* a, const std_Bit_iterator_base* b) { return a->idx != b->idx; }
static inline std_Bit_iterator* std_Bit_iterator_op_inc(std_Bit_iterator* i) { i->__base_Bit_iterator_base.idx++; return i; }
static inline std_Bit_reference std_Bit_iterator_op_star___k(const std_Bit_iterator* i) { __CPROVER_assert(i->__base_Bit_iterator_base.idx < g_bvec->size, "MODEL: only a valid (non-end) iterator is dereferenced"); std_Bit_reference r; r.idx = i->__base_Bit_iterator_base.idx; return r; }
static inline std_Bit_reference* std_Bit_reference_op_assign__b(std_Bit_reference* r, _Bool v) { if (r->idx == g_bw) g_elem_w = v; return r; }
static inline _Bool std_Bit_reference_conv_b___k(const std_Bit_reference* r) { return r->idx == g_bw ? g_elem_w : nondet_bool(); }
static inline void vvec_b_push_back__b(vvec_b* v, _Bool x) { if (v->size == g_bw) g_elem_w = x; v->size++; }
static inline void vvec_b_resize__u64_b(vvec_b* v, unsigned long n, _Bool x) { if (n > v->size && g_bw >= v->size && g_bw < n) g_elem_w = x; v->size = n; }
/* std::bitset<8> */
typedef struct { _Bool b[8]; } std_bitset_8;
static inline std_bitset_8* std_bitset_8_set__u64_b(std_bitset_8* s, unsigned long i, _Bool v) { if (i >= 8) { __verif_exc_oob = 1; return s; } s->b[i] = v; return s; }
static inline _Bool std_bitset_8_test__u64_k(const std_bitset_8* s, unsigned long i) { if (i >= 8) { __verif_exc_oob = 1; return 0; } return s->b[i]; }
/* std::optional<int> / std::unique_ptr<int> models */
/* std::forward_list<int>: size + index iterators; emplace_after anywhere but behind the last element is recorded (order of the items) */
typedef struct { size_t size; } std_forward_list_i32_valloc_i32;
typedef struct { size_t idx; } std_Fwd_list_iterator_i32;
typedef struct { size_t idx; } std_Fwd_list_const_iterator_i32;
static std_forward_list_i32_valloc_i32* g_fl; static _Bool g_fl_mid;
#define FL std_forward_list_i32_valloc_i32
#define FLI std_Fwd_list_iterator_i32
static inline void std_forward_list_i32_valloc_i32_resize__u64(FL* l, unsigned long n) { l->size = n; }
static inline _Bool std_forward_list_i32_valloc_i32_empty___k(const FL* l) { return l->size == 0; }
static inline FLI std_forward_list_i32_valloc_i32_begin(FL* l) { FLI it; it.idx = 0; return it; }
static inline FLI std_forward_list_i32_valloc_i32_end(FL* l) { FLI it; it.idx = l->size; return it; }
static inline _Bool m_std_operator_op_ne__rkstd_Fwd_list_iterator_i32_rkstd_Fwd_list_iterator_i32(const FLI* a, const FLI* b) { return a->idx != b->idx; }
static inline FLI* std_Fwd_list_iterator_i32_op_inc(FLI* it) { __CPROVER_assert(it->idx < g_fl->size, "MODEL: only a valid (non-end) forward_list iterator is incremented"); it->idx++; return it; }
static inline FLI* std_Fwd_list_iterator_i32_op_assign__rkstd_Fwd_list_iterator_i32(FLI* a, const FLI* b) { *a = *b; return a; }
static inline FLI* std_Fwd_list_iterator_i32_op_assign__xstd_Fwd_list_iterator_i32(FLI* a, FLI* b) { *a = *b; return a; }
static inline std_Fwd_list_const_iterator_i32 std_Fwd_list_const_iterator_i32_ctor__rkstd_Fwd_list_iterator_i32(const FLI* b) { std_Fwd_list_const_iterator_i32 c; c.idx = b->idx; return c; }
static inline FLI std_forward_list_i32_valloc_i32_emplace_after__std_Fwd_list_const_iterator_i32(FL* l, std_Fwd_list_const_iterator_i32 pos) {
  __CPROVER_assert(pos.idx < l->size, "MODEL: emplace_after needs a valid (non-end) iterator (UB otherwise)"); if (pos.idx + 1 != l->size) g_fl_mid = 1; l->size++; FLI it; it.idx = pos.idx + 1; return it; }
typedef struct { char __e; } std_nullopt_t; static const std_nullopt_t m_std_nullopt = {0};
typedef struct { _Bool has; int v; } vopt_i32;
static inline _Bool vopt_i32_has_value___k(const vopt_i32* o) { return o->has; }
static inline vopt_i32 vopt_i32_ctor_i32_1__xi32(int* v) { vopt_i32 o; o.has = 1; o.v = *v; return o; }
static inline vopt_i32* vopt_i32_op_assign__xvopt_i32(vopt_i32* o, vopt_i32* s) { *o = *s; return o; }
static inline vopt_i32* vopt_i32_op_assign__std_nullopt_t(vopt_i32* o, std_nullopt_t n) { (void)n; o->has = 0; return o; }
static inline int* vopt_i32_value(vopt_i32* o) { if (!o->has) __verif_exc = 10 /* std::bad_optional_access */; return &o->v; }
typedef struct { int* p; unsigned allocs, frees; } std_unique_ptr_i32_std_default_delete_i32;
#define UP std_unique_ptr_i32_std_default_delete_i32
static int g_heap_cell; static unsigned g_allocs, g_frees;
static inline _Bool std_unique_ptr_i32_std_default_delete_i32_conv_b___k(const UP* u) { return u->p != 0; }
static inline UP m_std_make_unique_i32(void) { UP u; g_heap_cell = 0; u.p = &g_heap_cell; g_allocs++; return u; }
static inline UP* std_unique_ptr_i32_std_default_delete_i32_op_assign__xstd_unique_ptr_i32_std_default_delete_i32(UP* a, UP* b) { if (a->p) g_frees++; a->p = b->p; b->p = 0; return a; }
static inline int* std_unique_ptr_i32_std_default_delete_i32_op_star___k(const UP* u) { __CPROVER_assert(u->p != 0, "MODEL: unique_ptr::operator* on a non-null pointer (UB otherwise)"); return u->p; }
static inline void std_unique_ptr_i32_std_default_delete_i32_reset__pi32(UP* u, int* np) { if (u->p) g_frees++; u->p = np; }
static inline int* std_Fwd_list_iterator_i32_op_star___k(const FLI* it) { __CPROVER_assert(it->idx < g_fl->size, "MODEL: only a valid (non-end) forward_list iterator is dereferenced"); g_deref_idx = it->idx; return &g_dummy; }
#include "gen.h"
/* abstract load scope: N items; IsEnd <=> all N were requested; each SerializeValue raises or delivers the next item */
static _Bool g_elem_w_after_resize; static size_t g_size_after_resize; static int g_vb_mode; static size_t g_b_loaded, g_b_n;
unsigned long AbsLoadArrayScope_GetEstimatedSize___k(const struct AbsLoadArrayScope* s) { return g_estimate; }
_Bool AbsLoadArrayScope_IsEnd___k(const struct AbsLoadArrayScope* s) { return g_vb_mode ? g_b_loaded == g_b_n : g_loaded == g_n; }
_Bool AbsLoadArrayScope_SerializeValue__ri32(struct AbsLoadArrayScope* s, int* v) {
  __CPROVER_assert(g_loaded < g_n, "C18: no item is requested from the archive beyond its end");
  if (nondet_bool()) { __verif_exc = EXC_SerializationException; return 0; }
  if (g_loaded == g_w) { g_w_slot = g_deref_idx; g_w_done = 1; }
  g_loaded++; return nondet_bool(); }
#define F Detail_SerializeContainer_AbsLoadArrayScope_vvec_i32__rAbsLoadArrayScope_rvvec_i32
#define VERIF_LOOP_Detail_SerializeContainer_AbsLoadArrayScope_vvec_i32__rAbsLoadArrayScope_rvvec_i32_1 \
  __CPROVER_assigns(it, loadedItems, g_loaded, g_w_slot, g_w_done, g_deref_idx, __verif_exc, __verif_exc_code VERIF_TMPS_Detail_SerializeContainer_AbsLoadArrayScope_vvec_i32__rAbsLoadArrayScope_rvvec_i32) \
  __CPROVER_loop_invariant(__verif_exc == 0 && loadedItems == g_loaded && g_loaded <= g_n && it.idx == loadedItems && it.idx <= cont->size && cont == g_vec && (g_w >= g_loaded || (g_w_done && g_w_slot == g_w))) \
  __CPROVER_decreases(cont->size - it.idx)
#define VERIF_LOOP_Detail_SerializeContainer_AbsLoadArrayScope_vvec_i32__rAbsLoadArrayScope_rvvec_i32_2 \
  __CPROVER_assigns(loadedItems, g_loaded, g_w_slot, g_w_done, g_deref_idx, cont->size, __verif_exc, __verif_exc_code) \
  __CPROVER_loop_invariant(__verif_exc == 0 && loadedItems == g_loaded && g_loaded <= g_n && (g_loaded == g_n || cont->size == loadedItems) && (g_w >= g_loaded || (g_w_done && g_w_slot == g_w))) \
  __CPROVER_decreases(g_n - g_loaded)
/* vector<bool>: items of the archive are bools; item k is loaded (delivered), reported as not loaded (target untouched) or the load raises */
static _Bool g_item_w, g_w_item_loaded;
_Bool AbsLoadArrayScope_SerializeValue__rb(struct AbsLoadArrayScope* s, _Bool* v) {
  __CPROVER_assert(g_b_loaded < g_b_n, "C18: no item is requested from the archive beyond its end");
  if (nondet_bool()) { __verif_exc = EXC_SerializationException; return 0; }
  size_t k = g_b_loaded++; if (nondet_bool()) return 0;                 /* null / skipped: not loaded, target not written */
  _Bool item = nondet_bool(); *v = item; if (k == g_bw) { g_item_w = item; g_w_item_loaded = 1; } return 1; }
#define FVB SerializeArray_AbsLoadArrayScope_valloc_b__rAbsLoadArrayScope_rvvec_b
#define VERIF_LOOP_SerializeArray_AbsLoadArrayScope_valloc_b__rAbsLoadArrayScope_rvvec_b_1 \
  __CPROVER_assigns(it.__base_Bit_iterator_base.idx, loadedItems, g_b_loaded, g_elem_w, g_item_w, g_w_item_loaded, __verif_exc, __verif_exc_code VERIF_TMPS_SerializeArray_AbsLoadArrayScope_valloc_b__rAbsLoadArrayScope_rvvec_b) \
  __CPROVER_loop_invariant(__verif_exc == 0 && loadedItems == g_b_loaded && g_b_loaded <= g_b_n && it.__base_Bit_iterator_base.idx == loadedItems && loadedItems <= cont->size && cont->size == g_size_after_resize && cont == g_bvec && g_vb_mode == 1 && \
     (g_bw >= loadedItems ? (!g_w_item_loaded && g_elem_w == g_elem_w_after_resize) : (g_w_item_loaded ? g_elem_w == g_item_w : g_elem_w == g_elem_w_after_resize))) \
  __CPROVER_decreases(cont->size - it.__base_Bit_iterator_base.idx)
#define VERIF_LOOP_SerializeArray_AbsLoadArrayScope_valloc_b__rAbsLoadArrayScope_rvvec_b_2 \
  __CPROVER_assigns(loadedItems, g_b_loaded, g_elem_w, g_item_w, g_w_item_loaded, cont->size, __verif_exc, __verif_exc_code) \
  __CPROVER_loop_invariant(__verif_exc == 0 && loadedItems == g_b_loaded && g_b_loaded <= g_b_n && cont->size >= loadedItems && (g_b_loaded == g_b_n || (cont->size == loadedItems && loadedItems >= g_size_after_resize)) && cont == g_bvec && \
     (g_bw >= loadedItems ? (!g_w_item_loaded && (g_bw >= cont->size || g_elem_w == g_elem_w_after_resize)) : (g_w_item_loaded ? g_elem_w == g_item_w : g_elem_w == (g_bw < g_size_after_resize ? g_elem_w_after_resize : 0)))) \
  __CPROVER_decreases(g_b_n - g_b_loaded)
#define FLF SerializeArray_AbsLoadArrayScope_i32_valloc_i32__rAbsLoadArrayScope_rstd_forward_list_i32_valloc_i32
#define VERIF_LOOP_SerializeArray_AbsLoadArrayScope_i32_valloc_i32__rAbsLoadArrayScope_rstd_forward_list_i32_valloc_i32_1 \
  __CPROVER_assigns(it, LastIt, loadedItems, g_loaded, g_w_slot, g_w_done, g_deref_idx, __verif_exc, __verif_exc_code VERIF_TMPS_SerializeArray_AbsLoadArrayScope_i32_valloc_i32__rAbsLoadArrayScope_rstd_forward_list_i32_valloc_i32) \
  __CPROVER_loop_invariant(__verif_exc == 0 && loadedItems == g_loaded && g_loaded <= g_n && it.idx == loadedItems && it.idx <= cont->size && cont->size >= 1 && cont == g_fl && !g_fl_mid \
     && LastIt.idx == (loadedItems == 0 ? 0 : loadedItems - 1) && (g_w >= g_loaded || (g_w_done && g_w_slot == g_w))) \
  __CPROVER_decreases(cont->size - it.idx)
#define VERIF_LOOP_SerializeArray_AbsLoadArrayScope_i32_valloc_i32__rAbsLoadArrayScope_rstd_forward_list_i32_valloc_i32_2 \
  __CPROVER_assigns(LastIt, loadedItems, g_loaded, g_w_slot, g_w_done, g_deref_idx, g_fl_mid, cont->size, __verif_exc, __verif_exc_code VERIF_TMPS_SerializeArray_AbsLoadArrayScope_i32_valloc_i32__rAbsLoadArrayScope_rstd_forward_list_i32_valloc_i32) \
  __CPROVER_loop_invariant(__verif_exc == 0 && loadedItems == g_loaded && g_loaded <= g_n && cont == g_fl && !g_fl_mid && (g_loaded == g_n || (cont->size == loadedItems && cont->size >= 1 && LastIt.idx == cont->size - 1)) \
     && (g_w >= g_loaded || (g_w_done && g_w_slot == g_w))) \
  __CPROVER_decreases(g_n - g_loaded)
#include "gen.c"
void h_load_vector(void) { g_vb_mode = 0; struct AbsLoadArrayScope scope; vvec_i32 vec; g_vec = &vec; vec.size = nondet_size_t(); vec.resizes = 0; __CPROVER_assume(vec.size <= ((size_t)1 << 50));   /* any prior content */
  g_n = nondet_size_t(); __CPROVER_assume(g_n <= ((size_t)1 << 50)); g_estimate = nondet_size_t(); __CPROVER_assume(g_estimate <= ((size_t)1 << 50));   /* the estimate may be 0, smaller or larger than N */
  g_loaded = 0; g_w = nondet_size_t(); g_w_done = 0; g_w_slot = 0; __verif_exc = 0;
  verif_inst_load_vector__rAbsLoadArrayScope_rvvec_i32(&scope, &vec);
  VERIF_ASSERT("C18", __verif_exc != 0 || (vec.size == g_n && g_loaded == g_n), "after a successful load the container has exactly as many elements as the archive array: no stale element survives, nothing loaded is lost, whatever the prior size and the size estimate");
  VERIF_ASSERT("C18", __verif_exc != 0 || g_w >= g_n || (g_w_done && g_w_slot == g_w), "item number w of the archive is loaded into element number w of the container (arbitrary witness w)");
  VERIF_CANARY(); }
/* std::forward_list<int> loader (types/std/forward_list.h): any prior length, any size estimate (0 = unknown, smaller, larger), N items */
void h_load_forward_list(void) { g_vb_mode = 0; struct AbsLoadArrayScope scope; FL lst; g_fl = &lst; g_fl_mid = 0; lst.size = nondet_size_t(); __CPROVER_assume(lst.size <= ((size_t)1 << 50));   /* any prior content */
  g_n = nondet_size_t(); __CPROVER_assume(g_n <= ((size_t)1 << 50)); g_estimate = nondet_size_t(); __CPROVER_assume(g_estimate <= ((size_t)1 << 50));
  g_loaded = 0; g_w = nondet_size_t(); g_w_done = 0; g_w_slot = 0; __verif_exc = 0; vvec_i32 dummy; dummy.size = 0; g_vec = &dummy;
  verif_inst_load_forward_list__rAbsLoadArrayScope_rstd_forward_list_i32_valloc_i32(&scope, &lst);
  VERIF_ASSERT("C18", __verif_exc != 0 || (lst.size == g_n && g_loaded == g_n), "after a successful load the forward_list has exactly as many elements as the archive array: no stale element survives, nothing loaded is lost, whatever the prior length and the size estimate");
  VERIF_ASSERT("C18", __verif_exc != 0 || g_w >= g_n || (g_w_done && g_w_slot == g_w && !g_fl_mid), "item number w of the archive is loaded into element number w of the list, new elements are only appended behind the last one (arbitrary witness w)");
  VERIF_CANARY(); }
/* optional / unique_ptr: one value is requested; it loads (ret true, value written), is reported as not loaded (null / skipped), or the load raises */
static int g_prior;
void h_load_optional(void) { g_vb_mode = 0; struct AbsLoadArrayScope scope; vopt_i32 o; o.has = nondet_bool(); o.v = nondet_int(); g_n = 1; g_loaded = 0; g_w = 0; g_w_done = 0; __verif_exc = 0; g_deref_idx = 0; vvec_i32 dummy; dummy.size = 1; g_vec = &dummy;
  _Bool ret = verif_inst_load_optional__rAbsLoadArrayScope_rvopt_i32(&scope, &o);
  VERIF_ASSERT("C18", __verif_exc != 0 || (g_loaded == 1 && ret == o.has), "whatever the optional held before, after a load it is engaged iff the value was loaded (a null or skipped value resets it): the same result as loading into a fresh optional");
  VERIF_ASSERT("C18,C20", __verif_exc == 0 || __verif_exc == EXC_SerializationException, "only the archive's own exception leaves the loader (no bad_optional_access)");
  VERIF_CANARY(); }
void h_load_unique(void) { g_vb_mode = 0; struct AbsLoadArrayScope scope; UP u; static int prior_cell; u.p = nondet_bool() ? &prior_cell : 0; _Bool had = u.p != 0; g_allocs = 0; g_frees = 0; g_n = 1; g_loaded = 0; g_w = 0; g_w_done = 0; __verif_exc = 0; vvec_i32 dummy; dummy.size = 1; g_vec = &dummy;
  _Bool ret = verif_inst_load_unique__rAbsLoadArrayScope_rstd_unique_ptr_i32_std_default_delete_i32(&scope, &u);
  VERIF_ASSERT("C18", __verif_exc != 0 || (g_loaded == 1 && ret == (u.p != 0)), "whatever the pointer held before, after a load it owns an object iff the value was loaded (a null or skipped value resets it)");
  VERIF_ASSERT("C18,C20", __verif_exc != 0 || (g_allocs == (had ? 0u : 1u) && g_frees == (ret ? 0u : 1u)), "an object is allocated only when none was there and released exactly when the value was not loaded: nothing leaks, nothing is released twice");
  VERIF_CANARY(); }
void h_load_vector_bool(void) { struct AbsLoadArrayScope scope; vvec_b vec; g_bvec = &vec; vec.size = nondet_size_t(); __CPROVER_assume(vec.size <= ((size_t)1 << 50)); size_t size0 = vec.size;
  g_b_n = nondet_size_t(); __CPROVER_assume(g_b_n <= ((size_t)1 << 50)); g_estimate = nondet_size_t(); __CPROVER_assume(g_estimate <= ((size_t)1 << 50)); g_bw = nondet_size_t(); g_elem_w = nondet_bool(); _Bool prior_w = g_elem_w;
  g_b_loaded = 0; g_w_item_loaded = 0; g_vb_mode = 1; __verif_exc = 0;
  /* what element w holds once the container has been resized to the estimate: its prior value if it existed, false if it was created */
  g_size_after_resize = g_estimate != 0 ? g_estimate : size0; g_elem_w_after_resize = g_bw < size0 && g_bw < g_size_after_resize ? prior_w : 0; if (!(g_bw < g_size_after_resize)) g_elem_w = g_elem_w_after_resize = 0;
  verif_inst_load_vector_bool__rAbsLoadArrayScope_rvvec_b(&scope, &vec);
  VERIF_ASSERT("C18", __verif_exc != 0 || (vec.size == g_b_n && g_b_loaded == g_b_n), "after a successful load the vector<bool> has exactly as many elements as the archive array, whatever its prior size and the size estimate");
  VERIF_ASSERT("C18,C05", __verif_exc != 0 || g_bw >= g_b_n || (g_w_item_loaded ? g_elem_w == g_item_w : g_elem_w == (g_bw < g_size_after_resize ? g_elem_w_after_resize : 0)), "element w holds item w of the archive if that item was loaded; an item that was NOT loaded (null / skipped) leaves its element at its previous value (false for a new element), not at a neighbour's value");
  VERIF_CANARY(); }
void h_load_bitset(void) { struct AbsLoadArrayScope scope; std_bitset_8 bs, bs0; for (int i = 0; i < 8; i++) { bs.b[i] = nondet_bool(); bs0.b[i] = bs.b[i]; }
  g_vb_mode = 1; g_b_n = 8; g_b_loaded = 0; g_bw = nondet_size_t(); __CPROVER_assume(g_bw < 8); g_w_item_loaded = 0; __verif_exc = 0; __verif_exc_oob = 0; vvec_b dummy; dummy.size = 8; g_bvec = &dummy;
  verif_inst_load_bitset__rAbsLoadArrayScope_rstd_bitset_8(&scope, &bs);
  VERIF_ASSERT("C18,C05", __verif_exc != 0 || (!__verif_exc_oob && g_b_loaded == 8 && (g_w_item_loaded ? bs.b[g_bw] == g_item_w : bs.b[g_bw] == bs0.b[g_bw])), "bit w holds item w of the archive if that item was loaded; a bit whose item was NOT loaded (null / skipped) keeps its previous value, not a neighbour's");
  VERIF_CANARY(); }
/*@jobs
job entry=h_load_vector props=C18,C02 mode=direct loops=1 unwind=2
job entry=h_load_forward_list props=C18,C02 mode=direct loops=1 unwind=2
job entry=h_load_vector_bool props=C18,C05,C02 mode=direct loops=1 unwind=2
job entry=h_load_bitset props=C18,C05,C02 mode=direct unwind=10
job entry=h_load_optional props=C18,C20,C02 mode=direct unwind=2
job entry=h_load_unique props=C18,C20,C02 mode=direct unwind=2
@*/
