// extraction TU: Detail::SerializeContainer (generic_container.h) instantiated over an abstract LOAD array scope and std::vector<int>.
#include "bitserializer/bit_serializer.h"
#include "bitserializer/serialization_detail/generic_container.h"
#include <vector>
#include <optional>
#include <memory>
#include "bitserializer/types/std/optional.h"
#include "bitserializer/types/std/memory.h"
#include "bitserializer/types/std/vector.h"
#include "bitserializer/types/std/bitset.h"
#include "bitserializer/types/std/forward_list.h"
namespace verif_inst {
using namespace BitSerializer;
// abstract array scope of some archive in load mode: only declarations - every call is a contract-only callee
class AbsLoadArrayScope : public TArchiveScope<SerializeMode::Load> {
public:
  explicit AbsLoadArrayScope(SerializationContext& ctx) : TArchiveScope<SerializeMode::Load>(ctx) {}
  size_t GetEstimatedSize() const;
  bool IsEnd() const;
  bool SerializeValue(int& value);
  bool SerializeValue(bool& value);
};
bool load_optional(AbsLoadArrayScope& scope, std::optional<int>& v) { return BitSerializer::Serialize(scope, v); }
bool load_unique(AbsLoadArrayScope& scope, std::unique_ptr<int>& v) { return BitSerializer::Serialize(scope, v); }
void load_bitset(AbsLoadArrayScope& scope, std::bitset<8>& cont) { BitSerializer::SerializeArray(scope, cont); }
void load_vector_bool(AbsLoadArrayScope& scope, std::vector<bool>& cont) { BitSerializer::SerializeArray(scope, cont); }
void load_forward_list(AbsLoadArrayScope& scope, std::forward_list<int>& cont) { BitSerializer::SerializeArray(scope, cont); }
void load_vector(AbsLoadArrayScope& scope, std::vector<int>& cont) { BitSerializer::Detail::SerializeContainer(scope, cont); }
}
