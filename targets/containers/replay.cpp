// Native replay for containers: runs the REAL BitSerializer::Detail::SerializeContainer over a concrete load array scope holding N
// items with the counterexample's prior container size and size estimate, and compares with loading the same scope into a fresh container.
#include "bitserializer/serialization_detail/archive_base.h"
#include "bitserializer/serialization_detail/generic_container.h"
#include "bitserializer/serialization_detail/serialization_base_types.h"
#include <vector>
#include <cstdio>
#include "replay/replay_util.h"
using namespace BitSerializer;
struct TestArchiveTraits { static constexpr ArchiveType archive_type = ArchiveType::Json; using key_type = std::string; using supported_key_types = TSupportedKeyTypes<std::string>; using preferred_output_format = std::string; using preferred_stream_char_type = char; static constexpr char path_separator = '/'; static constexpr bool is_binary = false; };
class TestLoadArrayScope : public TArchiveScope<SerializeMode::Load>, public TestArchiveTraits {
public:
  TestLoadArrayScope(SerializationContext& ctx, size_t n, size_t est) : TArchiveScope<SerializeMode::Load>(ctx), mN(n), mEst(est) {}
  size_t GetEstimatedSize() const { return mEst; }
  bool IsEnd() const { return mPos == mN; }
  std::string GetPath() const { return ""; }
  bool SerializeValue(int& v) { if (mPos >= mN) throw SerializationException(SerializationErrorCode::OutOfRange, "beyond end"); v = 1000 + static_cast<int>(mPos++); return true; }
  size_t mN, mEst, mPos = 0;
};
static ReplayDoc D;
int main(int argc, char** argv) {
  if (argc < 2 || !D.load(argv[1])) { puts("cannot read replay file"); return 2; }
  if (D.entry != "h_load_vector") { puts("unknown harness"); return 2; }
  size_t prior = D.u64("vec.size"), n = D.u64("g_n"), est = D.u64("g_estimate");
  if (prior > 4096 || n > 4096 || est > 4096) { printf("sizes too large to materialise (prior=%zu n=%zu est=%zu)\n", prior, n, est); puts("NOT-REPRODUCED"); return 0; }
  SerializationOptions opt; SerializationContext ctx(opt);
  std::vector<int> fresh, used(prior, -1); bool raised = false;
  try { TestLoadArrayScope a(ctx, n, est); Detail::SerializeContainer(a, fresh); TestLoadArrayScope b(ctx, n, est); Detail::SerializeContainer(b, used); }
  catch (const std::exception& e) { raised = true; printf("exception: %s\n", e.what()); }
  printf("prior size=%zu, archive items=%zu, estimate=%zu -> fresh.size=%zu used.size=%zu\n", prior, n, est, fresh.size(), used.size());
  bool bad = raised || fresh != used || used.size() != n; for (size_t i = 0; !bad && i < n; i++) bad = used[i] != 1000 + (int)i;
  puts(bad ? "REPRODUCED: loading into the populated vector differs from loading into a fresh one (or from the archive's items)" : "NOT-REPRODUCED"); return 0;
}
