// extraction TU: text <-> number wrappers of include/bitserializer/conversion_detail/convert_fundamental.h.
// std::from_chars / std::to_chars are library functions (contract-only models); Utf8::Encode / Utf8::Decode are replaced by their contracts
// (proved in utf_transcode).
#include "bitserializer/convert.h"
namespace verif_inst {
using namespace BitSerializer::Convert::Detail;
void parse_i32_c8(std::string_view in, int& out) { To(in, out); }
void parse_u64_c8(std::string_view in, unsigned long& out) { To(in, out); }
void parse_f64_c8(std::string_view in, double& out) { To(in, out); }
void parse_i16_c16(std::u16string_view in, short& out) { To(in, out); }
void parse_i64_c32(std::u32string_view in, long& out) { To(in, out); }
void parse_f32_wc(std::wstring_view in, float& out) { To(in, out); }
void parse_bool_c8(std::string_view in, bool& out) { To(in, out); }
void parse_bool_c16(std::u16string_view in, bool& out) { To(in, out); }
void parse_bool_c32(std::u32string_view in, bool& out) { To(in, out); }
void print_i64_c8(const long& in, std::string& out) { To(in, out); }
void print_u8_c8(const unsigned char& in, std::string& out) { To(in, out); }
void print_f64_c8(const double& in, std::string& out) { To(in, out); }
void print_i32_c16(const int& in, std::u16string& out) { To(in, out); }
void print_f32_c32(const float& in, std::u32string& out) { To(in, out); }
void print_bool_c8(const bool& in, std::string& out) { To(in, out); }
void print_bool_c16(const bool& in, std::u16string& out) { To(in, out); }
}
