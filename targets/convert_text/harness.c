/* Text <-> number wrappers of convert_fundamental.h (To(string_view, T&), To(string_view, bool&), To(const T&, string&), To(bool, string&)).
   std::from_chars / std::to_chars are LIBRARY functions: they are contract-only models here (the value they compute is an uninterpreted
   ghost), so what is proved is the repository's part of C16:
   - the parser hands from_chars exactly the text after the leading blanks (space / tab) up to the end of the input, for every input length
     (loop contract; arbitrary witness position for "everything skipped was a blank"); for 16/32-bit strings it hands it the UTF-8 encoding of
     exactly that same range (Utf8::Encode replaced by its contract), so the result cannot depend on the string width;
   - the value from_chars delivered is returned unchanged; result_out_of_range -> std::out_of_range, invalid_argument -> std::invalid_argument,
     target untouched; an integer target followed by ".<digit>" -> std::invalid_argument;
   - every read stays inside the presented text (CBMC pointer obligations on a buffer of exactly the input's length), and the <cctype>
     precondition of std::isdigit (argument representable as unsigned char) holds;
   - the printer's 42-byte buffer is large enough for every value of every type, and exactly the characters to_chars produced are appended
     (narrow) / handed to Utf8::Decode (wide); bool prints "true"/"false";
   - the bool parser accepts exactly 0/1 (not followed by a digit) and true/false in any case after blanks, for every input length. */
#include "models/prelude.h"
#include "models/sv.h"
typedef struct { const char* ptr; int ec; } std_from_chars_result;
typedef struct { char* ptr; int ec; } std_to_chars_result;
typedef struct { const char* p; size_t n; } std_initializer_list_c8;
typedef struct { const uint16_t* p; size_t n; } std_initializer_list_c16;
typedef struct { char* data; size_t size; unsigned appends; const char* app_first; const char* app_last; size_t app_len; size_t il_n; char il[5]; } vstr_c8;
typedef struct { unsigned appends; size_t il_n; uint16_t il[5]; } vstr_c16;
typedef struct { unsigned appends; } vstr_c32;
static inline vstr_c8 vstr_c8_ctor(void) { vstr_c8 s; s.data = 0; s.size = 0; s.appends = 0; s.app_first = 0; s.app_last = 0; s.il_n = 0; return s; }
static inline char* vstr_c8_data(vstr_c8* s) { return s->data; }
/* characters pushed one by one are NOT the transcoding Utf8::Encode produces: the text becomes an unrelated buffer (the obligations on from_chars' range then fail) */
static char g_pushed_text[8];
static inline void vstr_c8_push_back__c8(vstr_c8* s, char c) { s->data = g_pushed_text; g_pushed_text[s->size < 8 ? s->size : 7] = c; s->size++; }
static inline void vstr_c8_reserve__u64(vstr_c8* s, unsigned long n) { (void)s; (void)n; }
static inline size_t vstr_c8_size___k(const vstr_c8* s) { return s->size; }
static inline vsv_c8 vstr_c8_conv_vsv_c8___k(const vstr_c8* s) { vsv_c8 v; v.data = s->data; v.size = s->size; return v; }
static inline vstr_c8* vstr_c8_append_pc8_v__pc8_pc8(vstr_c8* s, char* first, char* last) { __CPROVER_assert(__CPROVER_same_object(first, last) && __CPROVER_POINTER_OFFSET(first) <= __CPROVER_POINTER_OFFSET(last), "MODEL: append(first,last) is given a valid range"); s->appends++; s->app_first = first; s->app_last = last; s->app_len = (size_t)(last - first); return s; }
static inline vstr_c8* vstr_c8_append__std_initializer_list_c8(vstr_c8* s, std_initializer_list_c8 il) { s->appends++; s->il_n = il.n; for (size_t i = 0; i < 5; i++) if (i < il.n) s->il[i] = il.p[i]; return s; }
static inline vstr_c16* vstr_c16_append__std_initializer_list_c16(vstr_c16* s, std_initializer_list_c16 il) { s->appends++; s->il_n = il.n; for (size_t i = 0; i < 5; i++) if (i < il.n) s->il[i] = il.p[i]; return s; }
static inline int m_isdigit(int c) { __CPROVER_assert(c >= -1 && c <= 255, "MODEL: std::isdigit is called with a value representable as unsigned char or EOF (undefined behaviour otherwise, C 7.4p1)"); return c >= '0' && c <= '9'; }

/* ---- ghost state ---- */
static const void* g_data; static size_t g_size; static size_t g_w;           /* input text (units), arbitrary witness position */
static unsigned g_fc_calls; static const char* g_fc_first; static const char* g_fc_last; static int g_fc_ec; static size_t g_fc_len;
static unsigned g_enc_calls; static const void* g_enc_first; static const void* g_enc_last; static char* g_u8; static size_t g_u8n;
static unsigned g_tc_calls; static char* g_tc_first; static char* g_tc_ptr; static int g_tc_ec; static size_t g_tc_need;
static unsigned g_dec_calls; static const char* g_dec_first; static const char* g_dec_last; static size_t g_dec_len;
#define EINVAL_ 22
#define ERANGE_ 34
#define EOVERFLOW_ 75
/* [charconv.from.chars]: ptr == first and ec == invalid_argument if nothing matched; otherwise ptr is the first character not matching
   (first < ptr <= last), ec == result_out_of_range if the value does not fit (value unmodified), else value is assigned */
#define FROM_CHARS(NAME, T, ND) \
static T g_fc_val_##T; \
std_from_chars_result NAME(const char* first, const char* last, T* value, int fmt) { std_from_chars_result r; \
  __CPROVER_assert(__CPROVER_same_object(first, last) && __CPROVER_POINTER_OFFSET(first) <= __CPROVER_POINTER_OFFSET(last), "MODEL: from_chars requires a valid range [first,last)"); \
  g_fc_calls++; g_fc_first = first; g_fc_last = last; size_t avail = (size_t)(last - first); \
  int ec = nondet_int(); __CPROVER_assume(ec == 0 || ec == EINVAL_ || ec == ERANGE_); if (avail == 0) ec = EINVAL_; \
  size_t len = nondet_size_t(); __CPROVER_assume(len >= 1 && len <= avail || (ec == EINVAL_ && len == 0)); if (ec == EINVAL_) len = 0; \
  g_fc_ec = ec; g_fc_len = len; r.ec = ec; r.ptr = first + len; if (ec == 0) { g_fc_val_##T = ND(); *value = g_fc_val_##T; } return r; }
typedef short i16; typedef int i32; typedef long i64; typedef unsigned long u64; typedef float f32; typedef double f64; typedef unsigned char u8;
FROM_CHARS(m_std_from_chars_i16__pkc8_pkc8_ri16_i32, i16, nondet_short)
FROM_CHARS(m_std_from_chars_i32__pkc8_pkc8_ri32_i32, i32, nondet_int)
FROM_CHARS(m_std_from_chars_i64__pkc8_pkc8_ri64_i32, i64, nondet_long)
FROM_CHARS(m_std_from_chars_u64__pkc8_pkc8_ru64_i32, u64, nondet_ulong)
FROM_CHARS(m_std_from_chars__pkc8_pkc8_rf32_chars_format, f32, nondet_float)
FROM_CHARS(m_std_from_chars__pkc8_pkc8_rf64_chars_format, f64, nondet_double)
/* [charconv.to.chars]: writes the shortest representation; fails with value_too_large iff it does not fit into [first,last).
   g_tc_need = the length the value needs: any length up to the maximum for the type (base 10: digits10+1 digits and sign;
   shortest round-trip float: 15 characters "-1.17549435e-38", double: 24 characters "-2.2250738585072014e-308") */
#define TO_CHARS(NAME, T, MAXLEN, EXTRA) \
std_to_chars_result NAME(char* first, char* last, T v EXTRA) { std_to_chars_result r; \
  __CPROVER_assert(__CPROVER_same_object(first, last) && __CPROVER_POINTER_OFFSET(first) <= __CPROVER_POINTER_OFFSET(last), "MODEL: to_chars requires a valid range [first,last)"); \
  g_tc_calls++; g_tc_first = first; size_t need = nondet_size_t(); __CPROVER_assume(need >= 1 && need <= MAXLEN); g_tc_need = need; \
  if ((size_t)(last - first) < need) { r.ec = EOVERFLOW_; r.ptr = last; } else { r.ec = 0; r.ptr = first + need; } g_tc_ec = r.ec; g_tc_ptr = r.ptr; return r; }
#define COMMA_INT , int base
TO_CHARS(m_std_to_chars__pc8_pc8_i64_i32, i64, 20, COMMA_INT)
TO_CHARS(m_std_to_chars__pc8_pc8_i32_i32, i32, 11, COMMA_INT)
TO_CHARS(m_std_to_chars__pc8_pc8_u8_i32, u8, 3, COMMA_INT)
TO_CHARS(m_std_to_chars__pc8_pc8_f32, f32, 15, )
TO_CHARS(m_std_to_chars__pc8_pc8_f64, f64, 24, )
#include "gen.h"
/* Utf8::Encode contract (proved in utf_transcode): with policy Skip it encodes the whole range [first,last) into the output and cannot fail */
#define ENCODE(NAME, CH) \
struct UtfEncodingResult; \
void enc_model_##CH(const CH* first, const CH* const* last, vstr_c8* out, int policy) { g_enc_calls++; g_enc_first = first; g_enc_last = *last; \
  size_t n = nondet_size_t(); __CPROVER_assume(n <= ((size_t)1 << 40)); char* p = malloc(n == 0 ? 1 : n); __CPROVER_assume(p != 0); g_u8 = p; g_u8n = n; out->data = p; out->size = n; }
ENCODE(x, uint16_t) ENCODE(y, uint32_t) ENCODE(z, int32_t)
#define Utf8_Encode_pkc16_c8_valloc_c8__pkc16_rkpkc16_rvstr_c8_UtfEncodingErrorPolicy_pkc8(f, l, o, p, m) enc_model_uint16_t(f, l, o, p)
#define Utf8_Encode_pkc32_c8_valloc_c8__pkc32_rkpkc32_rvstr_c8_UtfEncodingErrorPolicy_pkc8(f, l, o, p, m) enc_model_uint32_t(f, l, o, p)
#define Utf8_Encode_pkwc_c8_valloc_c8__pkwc_rkpkwc_rvstr_c8_UtfEncodingErrorPolicy_pkc8(f, l, o, p, m) enc_model_int32_t(f, l, o, p)
static inline void dec_model(const char* first, const char* last) { g_dec_calls++; g_dec_first = first; g_dec_last = last; g_dec_len = (size_t)(last - first); }
#define Utf8_Decode_pc8_c16_valloc_c16__pc8_pc8_rvstr_c16_UtfEncodingErrorPolicy_pkc16(f, l, o, p, m) dec_model(f, l)
#define Utf8_Decode_pc8_c32_valloc_c32__pc8_pc8_rvstr_c32_UtfEncodingErrorPolicy_pkc32(f, l, o, p, m) dec_model(f, l)

#define PO(p) ((unsigned long)__CPROVER_POINTER_OFFSET(p))
#define BLANK(c) ((c) == 0x20 || (c) == 0x09)
#define SKIP_LOOP(CH) \
  __CPROVER_assigns(it) \
  __CPROVER_loop_invariant(__CPROVER_same_object(it, end) && PO(it) <= PO(end) && PO(it) >= PO(g_data) && (PO(it) - PO(g_data)) % sizeof(CH) == 0 && (g_w >= (PO(it) - PO(g_data)) / sizeof(CH) || BLANK(((const CH*)g_data)[g_w]))) \
  __CPROVER_decreases(PO(end) - PO(it))
#define SKIP_LOOP_B(CH) \
  __CPROVER_assigns(startIt) \
  __CPROVER_loop_invariant(__CPROVER_same_object(startIt, endIt) && PO(startIt) <= PO(endIt) && PO(startIt) >= PO(g_data) && (PO(startIt) - PO(g_data)) % sizeof(CH) == 0 && (g_w >= (PO(startIt) - PO(g_data)) / sizeof(CH) || BLANK(((const CH*)g_data)[g_w]))) \
  __CPROVER_decreases(PO(endIt) - PO(startIt))
#define VERIF_LOOP_Detail_To_i32_c8_0__vsv_c8_ri32_1 SKIP_LOOP(char)
#define VERIF_LOOP_Detail_To_u64_c8_0__vsv_c8_ru64_1 SKIP_LOOP(char)
#define VERIF_LOOP_Detail_To_f64_c8_0__vsv_c8_rf64_1 SKIP_LOOP(char)
#define VERIF_LOOP_Detail_To_i16_c16_0__vsv_c16_ri16_1 SKIP_LOOP(uint16_t)
#define VERIF_LOOP_Detail_To_i64_c32_0__vsv_c32_ri64_1 SKIP_LOOP(uint32_t)
#define VERIF_LOOP_Detail_To_f32_wc_0__vsv_wc_rf32_1 SKIP_LOOP(int32_t)
static const void* g_stop;   /* ghost: where the bool parser's blank-skipping loop stopped (observed through the after-loop ghost hook) */
#define VERIF_AFTER_LOOP_Detail_To_c8__vsv_c8_rb_1 g_stop = startIt;
#define VERIF_AFTER_LOOP_Detail_To_c16__vsv_c16_rb_1 g_stop = startIt;
#define VERIF_AFTER_LOOP_Detail_To_c32__vsv_c32_rb_1 g_stop = startIt;
#define VERIF_LOOP_Detail_To_c8__vsv_c8_rb_1 SKIP_LOOP_B(char)
#define VERIF_LOOP_Detail_To_c16__vsv_c16_rb_1 SKIP_LOOP_B(uint16_t)
#define VERIF_LOOP_Detail_To_c32__vsv_c32_rb_1 SKIP_LOOP_B(uint32_t)
#include "gen.c"

static void ginit(void) { __verif_exc = 0; __verif_exc_code = 0; g_fc_calls = 0; g_enc_calls = 0; g_tc_calls = 0; g_dec_calls = 0; g_w = nondet_size_t(); }
/* the input text: a buffer of exactly `size` units, arbitrary contents */
#define MK_INPUT(CH, SVT) \
  size_t size = nondet_size_t(); __CPROVER_assume(size <= ((size_t)1 << 40)); CH* data = malloc((size == 0 ? 1 : size) * sizeof(CH)); __CPROVER_assume(data != 0); \
  SVT in; in.data = data; in.size = size; g_data = data; g_size = size;
/* number of leading blanks k is characterised by: every unit before k is a blank (witness w) and unit k (if any) is not */
#define FIRST_NONBLANK_OK(CH, P) (__CPROVER_same_object(P, data) && PO(P) >= PO(data) && PO(P) <= PO(data) + size * sizeof(CH) && (PO(P) - PO(data)) % sizeof(CH) == 0 && \
   (g_w >= (PO(P) - PO(data)) / sizeof(CH) || BLANK(data[g_w])) && ((PO(P) - PO(data)) / sizeof(CH) == size || !BLANK(data[(PO(P) - PO(data)) / sizeof(CH)])))

#define H_PARSE_NARROW(NAME, T, FN, ISINT) \
void h_parse_##NAME(void) { ginit(); MK_INPUT(char, vsv_c8) T out0 = g_fc_val_##T, out = out0; T* outp = &out; \
  FN(in, outp); \
  VERIF_ASSERT("C16", g_fc_calls == 1 && FIRST_NONBLANK_OK(char, g_fc_first) && g_fc_last == data + size, "the parser is applied to exactly the text after the leading blanks (space, tab), up to the end of the input"); \
  VERIF_ASSERT("C16", g_fc_ec != ERANGE_ || (__verif_exc == EXC_std_out_of_range && out == out0), "a literal the target cannot represent raises std::out_of_range and leaves the target untouched"); \
  VERIF_ASSERT("C16", g_fc_ec != EINVAL_ || (__verif_exc == EXC_std_invalid_argument && out == out0), "a text without a numeric literal raises std::invalid_argument and leaves the target untouched"); \
  _Bool frac = ISINT && g_fc_ec == 0 && g_fc_len + 1 < (size_t)(g_fc_last - g_fc_first) && g_fc_first[g_fc_len] == '.' && g_fc_first[g_fc_len + 1] >= '0' && g_fc_first[g_fc_len + 1] <= '9'; \
  VERIF_ASSERT("C16", g_fc_ec != 0 || (frac ? __verif_exc == EXC_std_invalid_argument : (__verif_exc == 0 && out == g_fc_val_##T)), "the value of the leading literal is returned unchanged; a fractional literal for an integer target raises std::invalid_argument"); \
  VERIF_CANARY(); }
H_PARSE_NARROW(i32_c8, i32, verif_inst_parse_i32_c8__vsv_c8_ri32, 1)
H_PARSE_NARROW(u64_c8, u64, verif_inst_parse_u64_c8__vsv_c8_ru64, 1)
void h_parse_f64_c8(void) { ginit(); MK_INPUT(char, vsv_c8) unsigned long b0 = nondet_ulong(); double out; __CPROVER_assume(sizeof(out) == 8); *(unsigned long*)&out = b0;
  verif_inst_parse_f64_c8__vsv_c8_rf64(in, &out);
  VERIF_ASSERT("C16", g_fc_calls == 1 && FIRST_NONBLANK_OK(char, g_fc_first) && g_fc_last == data + size, "the parser is applied to exactly the text after the leading blanks (space, tab), up to the end of the input");
  VERIF_ASSERT("C16", g_fc_ec != ERANGE_ || (__verif_exc == EXC_std_out_of_range && *(unsigned long*)&out == b0), "a literal the target cannot represent raises std::out_of_range and leaves the target untouched");
  VERIF_ASSERT("C16", g_fc_ec != EINVAL_ || (__verif_exc == EXC_std_invalid_argument && *(unsigned long*)&out == b0), "a text without a numeric literal raises std::invalid_argument and leaves the target untouched");
  VERIF_ASSERT("C16", g_fc_ec != 0 || (__verif_exc == 0 && *(unsigned long*)&out == *(unsigned long*)&g_fc_val_f64), "the value of the leading literal is returned bit-identically (a fraction is part of a floating literal)");
  VERIF_CANARY(); }
#define H_PARSE_WIDE(NAME, CH, SVT, T, FN, ISINT, EQ) \
void h_parse_##NAME(void) { ginit(); MK_INPUT(CH, SVT) T out; \
  FN(in, &out); \
  VERIF_ASSERT("C16", g_enc_calls == 1 && FIRST_NONBLANK_OK(CH, (const CH*)g_enc_first) && g_enc_last == data + size, "a 16/32-bit text is transcoded to UTF-8 from exactly the first non-blank unit up to the end of the input (nothing cut, nothing added)"); \
  VERIF_ASSERT("C16", g_fc_calls == 1 && g_fc_first == g_u8 && g_fc_last == g_u8 + g_u8n, "the parser is applied to exactly the whole transcoded text, so the result is the one the char string gives"); \
  VERIF_ASSERT("C16", g_fc_ec != ERANGE_ || __verif_exc == EXC_std_out_of_range, "a literal the target cannot represent raises std::out_of_range"); \
  VERIF_ASSERT("C16", g_fc_ec != EINVAL_ || __verif_exc == EXC_std_invalid_argument, "a text without a numeric literal raises std::invalid_argument"); \
  _Bool frac = ISINT && g_fc_ec == 0 && g_fc_len + 1 < g_u8n && g_u8[g_fc_len] == '.' && g_u8[g_fc_len + 1] >= '0' && g_u8[g_fc_len + 1] <= '9'; \
  VERIF_ASSERT("C16", g_fc_ec != 0 || (frac ? __verif_exc == EXC_std_invalid_argument : (__verif_exc == 0 && EQ)), "the value of the leading literal is returned unchanged; a fractional literal for an integer target raises std::invalid_argument"); \
  VERIF_CANARY(); }
H_PARSE_WIDE(i16_c16, uint16_t, vsv_c16, i16, verif_inst_parse_i16_c16__vsv_c16_ri16, 1, out == g_fc_val_i16)
H_PARSE_WIDE(i64_c32, uint32_t, vsv_c32, i64, verif_inst_parse_i64_c32__vsv_c32_ri64, 1, out == g_fc_val_i64)
H_PARSE_WIDE(f32_wc, int32_t, vsv_wc, f32, verif_inst_parse_f32_wc__vsv_wc_rf32, 0, *(unsigned*)&out == *(unsigned*)&g_fc_val_f32)

/* bool: reference grammar  blanks* ( '1' | '0' ) not followed by a digit  |  blanks* (true|false in any case) ; digit followed by digit -> out_of_range */
#define LC(c) ((c) >= 'A' && (c) <= 'Z' ? (c) + 32 : (c))
#define DIG(c) ((c) >= '0' && (c) <= '9')
#define H_PARSE_BOOL(NAME, CH, SVT, FN) \
void h_parse_bool_##NAME(void) { ginit(); MK_INPUT(CH, SVT) _Bool out0 = nondet_bool(), out = out0; g_stop = 0; \
  FN(in, &out); \
  VERIF_ASSERT("C16", g_stop != 0 && FIRST_NONBLANK_OK(CH, (const CH*)g_stop), "the literal is looked for exactly behind the leading blanks (space, tab): everything skipped is a blank (arbitrary witness), the first unit examined is not"); \
  size_t k = (PO(g_stop) - PO(data)) / sizeof(CH); __CPROVER_assume(k <= size); size_t n = size - k; const CH* p = data + k; \
  _Bool is_true = n >= 4 && LC(p[0]) == 't' && LC(p[1]) == 'r' && LC(p[2]) == 'u' && LC(p[3]) == 'e'; \
  _Bool is_false = n >= 5 && LC(p[0]) == 'f' && LC(p[1]) == 'a' && LC(p[2]) == 'l' && LC(p[3]) == 's' && LC(p[4]) == 'e'; \
  _Bool digit = n >= 1 && DIG(p[0]); _Bool single = digit && (n == 1 || !DIG(p[1])); \
  VERIF_ASSERT("C16", !(single && p[0] == '1') || (__verif_exc == 0 && out == 1), "\"1\" (not followed by a digit) after optional blanks is true"); \
  VERIF_ASSERT("C16", !(single && p[0] == '0') || (__verif_exc == 0 && out == 0), "\"0\" (not followed by a digit) after optional blanks is false"); \
  VERIF_ASSERT("C16", !(digit && !(single && (p[0] == '0' || p[0] == '1'))) || (__verif_exc == EXC_std_out_of_range && out == out0), "any other number raises std::out_of_range"); \
  VERIF_ASSERT("C16", !is_true || (__verif_exc == 0 && out == 1), "true in any letter case is true"); \
  VERIF_ASSERT("C16", !is_false || (__verif_exc == 0 && out == 0), "false in any letter case is false"); \
  VERIF_ASSERT("C16", digit || is_true || is_false || (__verif_exc == EXC_std_invalid_argument && out == out0), "everything else raises std::invalid_argument and leaves the target untouched"); \
  VERIF_CANARY(); }
H_PARSE_BOOL(c8, char, vsv_c8, verif_inst_parse_bool_c8__vsv_c8_rb)
H_PARSE_BOOL(c16, uint16_t, vsv_c16, verif_inst_parse_bool_c16__vsv_c16_rb)
H_PARSE_BOOL(c32, uint32_t, vsv_c32, verif_inst_parse_bool_c32__vsv_c32_rb)

#define H_PRINT_NARROW(NAME, T, ND, FN) \
void h_print_##NAME(void) { ginit(); T v = ND(); vstr_c8 out = vstr_c8_ctor(); \
  FN(&v, &out); \
  VERIF_ASSERT("C16", g_tc_calls == 1 && g_tc_ec == 0 && __verif_exc == 0, "the conversion buffer is large enough for every value of the type: printing never fails"); \
  VERIF_ASSERT("C16", out.appends == 1 && out.app_first == g_tc_first && out.app_last == g_tc_ptr && out.app_len == g_tc_need, "exactly the characters to_chars produced are appended - nothing truncated, nothing added"); \
  VERIF_CANARY(); }
H_PRINT_NARROW(i64_c8, i64, nondet_long, verif_inst_print_i64_c8__rki64_rvstr_c8)
H_PRINT_NARROW(u8_c8, u8, nondet_uchar, verif_inst_print_u8_c8__rku8_rvstr_c8)
H_PRINT_NARROW(f64_c8, f64, nondet_double, verif_inst_print_f64_c8__rkf64_rvstr_c8)
#define H_PRINT_WIDE(NAME, T, ND, OUTT, FN) \
void h_print_##NAME(void) { ginit(); T v = ND(); OUTT out; out.appends = 0; \
  FN(&v, &out); \
  VERIF_ASSERT("C16", g_tc_calls == 1 && g_tc_ec == 0 && __verif_exc == 0, "the conversion buffer is large enough for every value of the type: printing never fails"); \
  VERIF_ASSERT("C16", g_dec_calls == 1 && g_dec_first == g_tc_first && g_dec_last == g_tc_ptr && g_dec_len == g_tc_need, "exactly the characters to_chars produced are widened into the 16/32-bit string"); \
  VERIF_CANARY(); }
H_PRINT_WIDE(i32_c16, i32, nondet_int, vstr_c16, verif_inst_print_i32_c16__rki32_rvstr_c16)
H_PRINT_WIDE(f32_c32, f32, nondet_float, vstr_c32, verif_inst_print_f32_c32__rkf32_rvstr_c32)
void h_print_bool_c8(void) { ginit(); _Bool v = nondet_bool(); vstr_c8 out = vstr_c8_ctor();
  verif_inst_print_bool_c8__rkb_rvstr_c8(&v, &out);
  VERIF_ASSERT("C16", __verif_exc == 0 && out.appends == 1 && (v ? (out.il_n == 4 && out.il[0] == 't' && out.il[1] == 'r' && out.il[2] == 'u' && out.il[3] == 'e') : (out.il_n == 5 && out.il[0] == 'f' && out.il[1] == 'a' && out.il[2] == 'l' && out.il[3] == 's' && out.il[4] == 'e')), "bool prints as true / false");
  VERIF_CANARY(); }
void h_print_bool_c16(void) { ginit(); _Bool v = nondet_bool(); vstr_c16 out; out.appends = 0; out.il_n = 0;
  verif_inst_print_bool_c16__rkb_rvstr_c16(&v, &out);
  VERIF_ASSERT("C16", __verif_exc == 0 && out.appends == 1 && (v ? (out.il_n == 4 && out.il[0] == 't' && out.il[1] == 'r' && out.il[2] == 'u' && out.il[3] == 'e') : (out.il_n == 5 && out.il[0] == 'f' && out.il[1] == 'a' && out.il[2] == 'l' && out.il[3] == 's' && out.il[4] == 'e')), "bool prints as true / false in a 16-bit string");
  VERIF_CANARY(); }
/*@jobs
for H in i32_c8 u64_c8 f64_c8 i16_c16 i64_c32 f32_wc bool_c8 bool_c16 bool_c32:
  job entry=h_parse_{H} props=C16,C02 mode=direct loops=1 unwind=6
for H in i64_c8 u8_c8 f64_c8 i32_c16 f32_c32 bool_c8 bool_c16:
  job entry=h_print_{H} props=C16,C02 mode=direct unwind=6
@*/
