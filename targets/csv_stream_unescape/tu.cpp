// extraction TU: the real translation unit of the CSV readers; CCsvStreamReader's line scanner with CEncodedStreamReader replaced by its contract
#include "../../../repo/src/csv/csv_readers.cpp"
