/* CCsvStreamReader::UnescapeValue(char* beginIt, const char* endIt) (src/csv/csv_readers.cpp:424-457): the stream reader un-escapes a quoted
   field IN PLACE inside its decoded buffer through raw pointers.  Loop contract (closes the loop for every field length):
   - every read and write stays inside the field [beginIt, endIt): the scan pointer runs over the interior, the write pointer stays behind it;
   - the result is the prefix of the field that was written: data == beginIt, size == interior length - (number of DQUOTEs in it)/2 when the DQUOTEs
     come in pairs (valid escaping): exactly one DQUOTE of each pair is dropped (the postcondition does not prescribe which of the two; the loop invariant follows the code: the second);
   - a byte of the buffer outside the written prefix (ghost witness index, arbitrary) keeps its value: neighbouring fields are untouched;
   - a field that does not start AND end with a DQUOTE (including a lone DQUOTE) raises ParsingException before anything is written.
   Precondition from the call sites (ReadValue): the field is a non-empty range of the decoded buffer. */
#include "models/prelude.h"
#include "models/sv.h"
#include <stdlib.h>
typedef struct { int _opaque; } vistream;
typedef struct { size_t size; } vstr_c8;
typedef struct { size_t n; } vvec_CValueMeta;
typedef struct { int _opaque; } vvec_vstr_c8;
static char* g_buf; static size_t g_w; static char g_wv; static size_t g_off, g_sz, g_quotes; static _Bool g_loop_done;
#define PO(p) __CPROVER_POINTER_OFFSET(p)
#define F CCsvStreamReader_UnescapeValue__pc8_pkc8
#define VERIF_LOOP_CCsvStreamReader_UnescapeValue__pc8_pkc8_1 \
  __CPROVER_assigns(currentPos, decodedIt, doubleQuotesCount, __CPROVER_object_whole(beginIt)) \
  __CPROVER_loop_invariant(__CPROVER_same_object(currentPos, beginIt) && __CPROVER_same_object(decodedIt, beginIt) && __CPROVER_same_object(endIt, beginIt) && beginIt == g_buf + g_off && PO(endIt) == g_off + g_sz - 1 \
     && PO(currentPos) >= g_off + 1 && PO(currentPos) <= PO(endIt) && PO(decodedIt) >= g_off && doubleQuotesCount <= PO(currentPos) - g_off - 1 \
     && PO(decodedIt) - g_off + doubleQuotesCount / 2 == PO(currentPos) - g_off - 1 && ((g_w >= g_off && g_w < PO(decodedIt)) || g_buf[g_w] == g_wv)) \
  __CPROVER_decreases(PO(endIt) - PO(currentPos))
#define VERIF_AFTER_LOOP_CCsvStreamReader_UnescapeValue__pc8_pkc8_1 g_quotes = doubleQuotesCount; g_loop_done = 1;
#include "gen.h"
#include "gen.c"
void h_unescape_stream(void) {
  size_t n = nondet_size_t(); __CPROVER_assume(n >= 1 && n <= 1048576); g_buf = malloc(n); __CPROVER_assume(g_buf != 0);
  g_off = nondet_size_t(); g_sz = nondet_size_t(); __CPROVER_assume(g_off < n && g_sz >= 1 && g_sz <= n - g_off);      /* a non-empty field inside the buffer */
  char first = g_buf[g_off], last = g_buf[g_off + g_sz - 1];
  g_w = nondet_size_t(); __CPROVER_assume(g_w < n); g_wv = g_buf[g_w];
  struct CCsvStreamReader r; __verif_exc = 0; g_loop_done = 0; g_quotes = 0;
  vsv_c8 out = F(&r, g_buf + g_off, g_buf + g_off + g_sz);
  _Bool quoted = g_sz >= 2 && first == '"' && last == '"';
  VERIF_ASSERT("C09,C20", (__verif_exc != 0) == !quoted && (__verif_exc == 0 || __verif_exc == EXC_ParsingException), "a field is un-escaped iff it starts and ends with a DQUOTE (two different characters); anything else raises ParsingException");
  VERIF_ASSERT("C09,C20", __verif_exc == 0 || (!g_loop_done && g_buf[g_w] == g_wv), "a rejected field leaves the buffer untouched");
  VERIF_ASSERT("C09", __verif_exc != 0 || (out.data == g_buf + g_off && g_quotes <= g_sz - 2 && out.size <= g_sz - 2 - g_quotes / 2 && out.size + (g_quotes + 1) / 2 >= g_sz - 2 && (g_quotes % 2 != 0 || out.size == g_sz - 2 - g_quotes / 2)), "the result is the field's own storage, its length is the interior length minus one character per DQUOTE pair");
  VERIF_ASSERT("C09,C02", __verif_exc != 0 || g_w >= g_off && g_w < g_off + out.size || g_buf[g_w] == g_wv, "every byte outside the returned prefix keeps its value (neighbouring fields and the rest of the buffer are not touched)");
  VERIF_CANARY(); }
/*@jobs
job entry=h_unescape_stream props=C09,C02,C20 mode=direct loops=1 unwind=3
@*/
