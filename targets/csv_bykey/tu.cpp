// extraction TU: the real translation unit of the CSV readers; access to a CSV value by column name: ReadValue(key, out) of both readers
#include "../../../repo/src/csv/csv_readers.cpp"
