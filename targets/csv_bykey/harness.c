/* Access to a CSV value by COLUMN NAME: CCsvStringReader::ReadValue(key, out) and CCsvStreamReader::ReadValue(key, out) (csv_readers.cpp:35-64,
   249-278), for every number of columns, every position of the requested column (or its absence) and every prior read position.
   C03: a present column is delivered from exactly its own column of the current row, wherever the previous read stood (next-column fast
   path or search); an ABSENT column is reported as not loaded and delivers nothing from any other column. */
#include "models/prelude.h"
#include "models/sv.h"
static inline vsv_c8* vsv_c8_op_assign__rkvsv_c8(vsv_c8* s, const vsv_c8* o) { *s = *o; return s; }
typedef struct { int _opaque; } vistream;
typedef struct { size_t idx; char* data; } vstr_c8;                 /* header cell: identified by its column index; decoded buffer: data */
typedef struct { size_t n; } vvec_vstr_c8;
typedef struct { size_t n; } vvec_CValueMeta;
typedef struct { size_t idx; } vit_pkvstr_c8_vvec_vstr_c8;
static size_t g_n, g_kpos; static char g_hdr_marker, g_key_marker, g_src[1], g_unesc[1];
static vstr_c8 g_hcell;
static inline size_t vvec_vstr_c8_size___k(const vvec_vstr_c8* v) { return v->n; }
static inline vstr_c8* vvec_vstr_c8_op_index__u64(vvec_vstr_c8* v, unsigned long i) { __CPROVER_assert(i < v->n, "MODEL: vector::operator[] index < size() (UB otherwise)"); g_hcell.idx = i; return &g_hcell; }
static inline vsv_c8 vstr_c8_conv_vsv_c8___k(const vstr_c8* s) { vsv_c8 v; v.data = &g_hdr_marker; v.size = s->idx; return v; }
static inline char* vstr_c8_data(vstr_c8* s) { return s->data; }
static inline _Bool m_std_operator_op_ne_c8_std_char_traits_c8__vsv_c8_vsv_c8(vsv_c8 a, vsv_c8 b) { __CPROVER_assert(a.data == &g_hdr_marker && b.data == &g_key_marker, "MODEL: a header name is compared with the requested key"); return a.size != g_kpos; }
static inline vit_pkvstr_c8_vvec_vstr_c8 vvec_vstr_c8_cbegin___k(const vvec_vstr_c8* v) { vit_pkvstr_c8_vvec_vstr_c8 i; i.idx = 0; return i; }
static inline vit_pkvstr_c8_vvec_vstr_c8 vvec_vstr_c8_cend___k(const vvec_vstr_c8* v) { vit_pkvstr_c8_vvec_vstr_c8 i; i.idx = v->n; return i; }
static inline vit_pkvstr_c8_vvec_vstr_c8 m_std_cend_vvec_vstr_c8__rkvvec_vstr_c8(const vvec_vstr_c8* v) { return vvec_vstr_c8_cend___k(v); }
static inline vit_pkvstr_c8_vvec_vstr_c8 m_std_cbegin_vvec_vstr_c8__rkvvec_vstr_c8(const vvec_vstr_c8* v) { return vvec_vstr_c8_cbegin___k(v); }
/* std::find(first, last, key): the first position in [first,last) whose element equals key, else last */
static inline vit_pkvstr_c8_vvec_vstr_c8 m_std_find_vit_pkvstr_c8_vvec_vstr_c8_vsv_c8__vit_pkvstr_c8_vvec_vstr_c8_vit_pkvstr_c8_vvec_vstr_c8_rkvsv_c8(vit_pkvstr_c8_vvec_vstr_c8 f, vit_pkvstr_c8_vvec_vstr_c8 l, const vsv_c8* key) {
  __CPROVER_assert(f.idx <= l.idx && l.idx <= g_n && key->data == &g_key_marker, "MODEL: std::find is given a valid range of the header vector and the requested key"); vit_pkvstr_c8_vvec_vstr_c8 r; r.idx = (g_kpos >= f.idx && g_kpos < l.idx) ? g_kpos : l.idx; return r; }
static inline _Bool m_gnu_cxx_operator_op_eq_pkvstr_c8_vvec_vstr_c8__rkvit_pkvstr_c8_vvec_vstr_c8_rkvit_pkvstr_c8_vvec_vstr_c8(const vit_pkvstr_c8_vvec_vstr_c8* a, const vit_pkvstr_c8_vvec_vstr_c8* b) { return a->idx == b->idx; }
static inline _Bool m_gnu_cxx_operator_op_ne_pkvstr_c8_vvec_vstr_c8__rkvit_pkvstr_c8_vvec_vstr_c8_rkvit_pkvstr_c8_vvec_vstr_c8(const vit_pkvstr_c8_vvec_vstr_c8* a, const vit_pkvstr_c8_vvec_vstr_c8* b) { return a->idx != b->idx; }
static inline long m_gnu_cxx_operator_op_minus_pkvstr_c8_vvec_vstr_c8__rkvit_pkvstr_c8_vvec_vstr_c8_rkvit_pkvstr_c8_vvec_vstr_c8(const vit_pkvstr_c8_vvec_vstr_c8* a, const vit_pkvstr_c8_vvec_vstr_c8* b) { return (long)a->idx - (long)b->idx; }
static inline vit_pkvstr_c8_vvec_vstr_c8 m_gnu_cxx_operator_op_plus_pkvstr_c8_vvec_vstr_c8(const vit_pkvstr_c8_vvec_vstr_c8* a, long d) { vit_pkvstr_c8_vvec_vstr_c8 r; r.idx = a->idx + (size_t)d; return r; }
/* further iterator operations a rewrite of the lookup may use */
#define VIT vit_pkvstr_c8_vvec_vstr_c8
static inline VIT vit_pkvstr_c8_vvec_vstr_c8_op_plus__i64_k(const VIT* a, long d) { VIT r; r.idx = a->idx + (size_t)d; return r; }
static inline VIT vit_pkvstr_c8_vvec_vstr_c8_op_minus__i64_k(const VIT* a, long d) { VIT r; r.idx = a->idx - (size_t)d; return r; }
static inline VIT* vit_pkvstr_c8_vvec_vstr_c8_op_assign__xvit_pkvstr_c8_vvec_vstr_c8(VIT* a, VIT* b) { *a = *b; return a; }
static inline VIT* vit_pkvstr_c8_vvec_vstr_c8_op_assign__rkvit_pkvstr_c8_vvec_vstr_c8(VIT* a, const VIT* b) { *a = *b; return a; }
static inline VIT* vit_pkvstr_c8_vvec_vstr_c8_op_inc(VIT* a) { a->idx++; return a; }
static inline const vstr_c8* vit_pkvstr_c8_vvec_vstr_c8_op_star___k(const VIT* a) { __CPROVER_assert(a->idx < g_n, "MODEL: only a valid (non-end) iterator is dereferenced"); g_hcell.idx = a->idx; return &g_hcell; }
#include "gen.h"
static size_t g_meta_idx; static unsigned g_meta_calls; static struct CValueMeta g_meta;
static inline struct CValueMeta* vvec_CValueMeta_at__u64(vvec_CValueMeta* v, unsigned long i) { g_meta_calls++; if (i >= v->n) { __verif_exc = EXC_std_out_of_range; return &g_meta; } g_meta_idx = i; return &g_meta; }
static unsigned g_unesc_calls;
vsv_c8 CCsvStringReader_UnescapeValue__vsv_c8(struct CCsvStringReader* s, vsv_c8 v) { g_unesc_calls++; vsv_c8 r; r.data = g_unesc; r.size = 0; if (!(v.data == g_src + g_meta.Offset && v.size == g_meta.Size)) r.data = 0; if (nondet_bool()) __verif_exc = EXC_ParsingException; return r; }
vsv_c8 CCsvStreamReader_UnescapeValue__pc8_pkc8(struct CCsvStreamReader* s, char* b, const char* e) { g_unesc_calls++; vsv_c8 r; r.data = g_unesc; r.size = 0; if (!(b == g_src + g_meta.Offset && e == b + g_meta.Size)) r.data = 0; if (nondet_bool()) __verif_exc = EXC_ParsingException; return r; }
#include "gen.c"
#define H_BYKEY(NAME, TYPE, FN, SRCINIT) \
void h_bykey_##NAME(void) { struct TYPE s; g_n = nondet_size_t(); __CPROVER_assume(g_n <= ((size_t)1 << 40)); g_kpos = nondet_size_t(); __CPROVER_assume(g_kpos <= g_n);   /* g_kpos == g_n: no column carries the key */ \
  s.mWithHeader = nondet_bool(); s.mHeaders.n = g_n; s.mRowValuesMeta.n = g_n; s.mValueIndex = nondet_size_t(); __CPROVER_assume(s.mValueIndex <= g_n || s.mValueIndex == (size_t)-1); SRCINIT; \
  g_meta.Offset = 0; g_meta.Size = 0; g_meta.HasEscapedChars = nondet_bool(); g_meta_calls = 0; g_unesc_calls = 0; g_meta_idx = (size_t)-1; __verif_exc = 0; \
  vsv_c8 key; key.data = &g_key_marker; key.size = 1; vsv_c8 out; out.data = &g_key_marker; out.size = 77; \
  _Bool ret = FN(&s, key, &out); \
  _Bool present = s.mWithHeader && g_kpos < g_n; \
  VERIF_ASSERT("C03", present || (!ret && g_meta_calls == 0 && g_unesc_calls == 0 && __verif_exc == 0 && (out.size == 0 || out.size == 77)), "a column that does not exist (or a file without header) is reported as not loaded; no value of any other column is delivered"); \
  VERIF_ASSERT("C03", !present || __verif_exc != 0 || (ret && g_meta_calls == 1 && g_meta_idx == g_kpos && s.mValueIndex == g_kpos), "an existing column is delivered from exactly its own column of the current row, wherever the previous read stood"); \
  VERIF_ASSERT("C03,C09", !present || __verif_exc != 0 || (g_meta.HasEscapedChars ? (g_unesc_calls == 1 && out.data == g_unesc) : (g_unesc_calls == 0 && out.data == g_src + g_meta.Offset && out.size == g_meta.Size)), "the delivered text is exactly the field's characters (un-escaped when it was quoted)"); \
  VERIF_ASSERT("C03,C20", __verif_exc == 0 || (present && __verif_exc == EXC_ParsingException), "the only failure is the un-escaper's ParsingException"); \
  VERIF_CANARY(); }
H_BYKEY(string, CCsvStringReader, CCsvStringReader_ReadValue__vsv_c8_rvsv_c8, s.mSourceString.data = g_src; s.mSourceString.size = 1)
H_BYKEY(stream, CCsvStreamReader, CCsvStreamReader_ReadValue__vsv_c8_rvsv_c8, s.mDecodedBuffer.data = g_src)
/*@jobs
job entry=h_bykey_string props=C03,C09,C20,C02 mode=direct unwind=3
job entry=h_bykey_stream props=C03,C09,C20,C02 mode=direct unwind=3
@*/
