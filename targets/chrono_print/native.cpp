// Exhaustive native evaluation (listed as "bounded"; the range is the whole domain) of the REAL PrintSecondsFractions<nanoseconds>:
// every count 0..999,999,999 in both modes (fixed width / without trailing zeros) against the decimal digits of the count,
// plus the buffer-too-small and >= 1 s refusals.
#include "bitserializer/convert.h"
#include <chrono>
#include <cstdio>
#include <cstring>
using namespace BitSerializer::Convert::Detail;
int main() { long evals = 0, fails = 0; char exp[16], buf[16];
  memset(exp, '0', 10); exp[0] = '.';
  for (long v = 0; v < 1000000000L; v++) {
    for (int mode = 0; mode < 2; mode++) { bool fixed = mode == 0; memset(buf, 'x', sizeof buf);
      char* r = PrintSecondsFractions(buf, buf + 12, std::chrono::nanoseconds(v), fixed); ++evals;
      size_t n = 10; if (!fixed) { while (n > 2 && exp[n - 1] == '0') n--; }
      if (r != buf + n || memcmp(buf, exp, n) != 0 || buf[n] != 'x') { if (fails++ < 5) printf("FAIL print_fractions %ld ns fixed=%d -> '%.*s' expected '%.*s'\n", v, fixed, r ? (int)(r - buf) : 0, buf, (int)n, exp); } }
    for (int i = 9; i >= 1; i--) { if (exp[i] == '9') exp[i] = '0'; else { exp[i]++; break; } } }
  { memset(buf, 'x', sizeof buf); char* r = PrintSecondsFractions(buf, buf + 9, std::chrono::nanoseconds(123456789), true); ++evals; if (r != nullptr || buf[9] != 'x') { fails++; puts("FAIL print_fractions small buffer accepted or overrun"); }
    r = PrintSecondsFractions(buf, buf + 12, std::chrono::nanoseconds(1000000000), true); ++evals; if (r != nullptr) { fails++; puts("FAIL print_fractions 1 s accepted"); } }
  printf("RESULT print_fractions evaluations=%ld failures=%ld range=every count 0..999999999 ns in both modes (the whole domain) + refusals\n", evals, fails); return 0; }
