// extraction TU: ISO-8601 rendering helpers of convert_chrono.h: PrintIsoUtc (date-time parts -> text, snprintf as a model), PrintSecondsFractions.
#include "bitserializer/convert.h"
namespace verif_inst {
using namespace BitSerializer::Convert::Detail;
char* print_iso_ms(const CDateTimeParts<std::chrono::milliseconds>& utc, char* pos, char* end) { return PrintIsoUtc(utc, pos, end); }
char* print_fractions_ns(char* pos, const char* end, std::chrono::nanoseconds t, bool fixedWidth) { return PrintSecondsFractions(pos, end, t, fixedWidth); }
char* print_fractions_ms(char* pos, const char* end, std::chrono::milliseconds t, bool fixedWidth) { return PrintSecondsFractions(pos, end, t, fixedWidth); }
}
