/* ISO-8601 rendering helpers (convert_chrono.h): PrintIsoUtc<milliseconds> and PrintSecondsFractions<ns/ms>.
   snprintf is a contract-only model per C 7.21.6.5: with the format "%04lu-%02d-%02dT%02d:%02d:%02d" and in-range parts it WOULD write
   L = max(4, digits(year)) + 15 characters, writes at most size-1 of them plus a NUL into [buf, buf+size), and returns L.
   C02/C14: for every year (all 2^64 values), every buffer size and every position inside the buffer, PrintIsoUtc writes only inside
   [pos, endPos): it returns the position behind  [sign] L characters [fraction] 'Z'  when that fits and raises runtime_error when it does
   not - it never writes behind the buffer.  PrintSecondsFractions prints exactly the digits of the sub-second count (fixed width, or
   without trailing zeros), for every count below one second and every buffer size, or returns nullptr - never writing behind `end`. */
#include "models/prelude.h"
#include <stdlib.h>
typedef struct { const int* p; size_t n; } std_initializer_list_i32;
static inline const int* std_initializer_list_i32_begin___k(const std_initializer_list_i32* l) { return l->p; }
static inline const int* std_initializer_list_i32_end___k(const std_initializer_list_i32* l) { return l->p + l->n; }
typedef struct { _Bool has; long rep; } vopt_chr_duration_i64_std_ratio_1_1000;
static inline _Bool vopt_chr_duration_i64_std_ratio_1_1000_conv_b___k(const vopt_chr_duration_i64_std_ratio_1_1000* o) { return o->has; }
static inline long m_builtin_labs(long v) { __CPROVER_assert(v != (-9223372036854775807L - 1), "MODEL: labs(LONG_MIN) is undefined"); return v < 0 ? -v : v; }
static size_t g_snp_len; static unsigned g_snp_calls;
static inline unsigned ndigits(unsigned long v) { unsigned n = 1; while (v >= 10 && n < 20) { v /= 10; n++; } return n; }
static int snprintf_model(char* buf, unsigned long size, unsigned long year) { g_snp_calls++;
  __CPROVER_assert(size == 0 || __CPROVER_w_ok(buf, size), "MODEL: snprintf is given a writable buffer of the stated size");
  unsigned d = ndigits(year); size_t L = (d < 4 ? 4 : d) + 15; g_snp_len = L;
  if (size > 0) { size_t w = L < size - 1 ? L : size - 1; for (size_t i = 0; i < 40; i++) if (i < w) buf[i] = nondet_char(); buf[w] = 0; }
  return (int)L; }
#define VERIF_VARIADIC_snprintf(buf, size, fmt, year, mon, day, hour, min, sec) snprintf_model(buf, size, year)
#include "gen.h"
static inline const struct chr_duration_i64_std_ratio_1_1000* vopt_chr_duration_i64_std_ratio_1_1000_value___k(const vopt_chr_duration_i64_std_ratio_1_1000* o) { static struct chr_duration_i64_std_ratio_1_1000 d; d.__r = o->rep; return &d; }
#include "gen.c"
#define BUFSZ 48
void h_print_iso(void) { char buf[BUFSZ]; size_t off = nondet_size_t(), cap = nondet_size_t(); __CPROVER_assume(off <= BUFSZ && cap <= BUFSZ - off);   /* any position, any remaining capacity (incl. the real 32) */
  struct CDateTimeParts_chr_duration_i64_std_ratio_1_1000_0 utc; utc.Year = nondet_long(); utc.Month = nondet_int(); utc.Day = nondet_int(); utc.Hour = nondet_int(); utc.Min = nondet_int(); utc.Sec = nondet_int();
  __CPROVER_assume(utc.Month >= 1 && utc.Month <= 12 && utc.Day >= 1 && utc.Day <= 31 && utc.Hour >= 0 && utc.Hour <= 23 && utc.Min >= 0 && utc.Min <= 59 && utc.Sec >= 0 && utc.Sec <= 59);
  utc.SecFractions.has = nondet_bool(); utc.SecFractions.rep = nondet_long(); __CPROVER_assume(utc.SecFractions.rep >= 0 && utc.SecFractions.rep <= 999);
  g_snp_calls = 0; __verif_exc = 0;
  char* r = verif_inst_print_iso_ms__rkCDateTimeParts_chr_duration_i64_std_ratio_1_1000_0_pc8_pc8(&utc, buf + off, buf + off + cap);
  size_t sign = (utc.Year >= 10000 || utc.Year < 0) ? 1 : 0; size_t need = sign + g_snp_len + (utc.SecFractions.has ? 4 : 0) + 1;
  VERIF_ASSERT("C14,C20", __verif_exc == 0 || __verif_exc == EXC_std_runtime_error, "rendering raises nothing but the 'insufficient buffer' runtime_error");
  VERIF_ASSERT("C14,C02", __verif_exc != 0 || (r == buf + off + need && need <= cap && r[-1] == 'Z'), "on success the text is [sign] date-time [.fff] Z, ends with 'Z' and lies inside the buffer");
  VERIF_ASSERT("C14", !(cap >= 40) || __verif_exc == 0, "a buffer of 40 characters is enough for every date-time that has a 64-bit year");
  VERIF_CANARY(); }
#define H_FRAC(NAME, FN, DT, W, P10) \
void h_fractions_##NAME(void) { char buf[16]; size_t cap = nondet_size_t(); __CPROVER_assume(cap <= 16); struct DT t; t.__r = nondet_long(); _Bool fixed = nondet_bool(); __verif_exc = 0; \
  __CPROVER_assume(t.__r > -(P10)); for (int i = 0; i < 16; i++) buf[i] = 'x'; \
  char* r = FN(buf, buf + cap, t, fixed); long v = t.__r < 0 ? -t.__r : t.__r; \
  VERIF_ASSERT("C14,C20", __verif_exc == 0, "PrintSecondsFractions raises nothing (noexcept)"); \
  VERIF_ASSERT("C14", !(t.__r >= (P10)) || r == 0, "a duration of one second or more is refused"); \
  if (r != 0) { size_t n = (size_t)(r - buf); long val = 0; _Bool digits_ok = n >= 2 && n <= 1 + W && buf[0] == '.'; for (size_t i = 1; i < 1 + W; i++) { if (i < n) { if (buf[i] < '0' || buf[i] > '9') digits_ok = 0; val = val * 10 + (buf[i] - '0'); } else val = val * 10; } \
    VERIF_ASSERT("C14", digits_ok && val == v && n <= cap && (fixed ? n == 1 + W : (n == 2 || buf[n - 1] != '0')), "the fraction is '.' followed by the decimal digits of the sub-second count: all of them (fixed width) or without trailing zeros, nothing else, inside the buffer"); } \
  else VERIF_ASSERT("C14", t.__r >= (P10) || cap < 1 + W, "nullptr only for a duration of a second or more, or a buffer that cannot hold the full width"); \
  VERIF_ASSERT("C02", buf[cap < 16 ? cap : 15] == 'x' || cap >= 16, "nothing is written behind `end`"); \
  VERIF_CANARY(); }
H_FRAC(ns, verif_inst_print_fractions_ns__pc8_pkc8_chr_duration_i64_std_ratio_1_1000000000_b, chr_duration_i64_std_ratio_1_1000000000, 9, 1000000000L)
H_FRAC(ms, verif_inst_print_fractions_ms__pc8_pkc8_chr_duration_i64_std_ratio_1_1000_b, chr_duration_i64_std_ratio_1_1000, 3, 1000L)
/*@jobs
job entry=h_print_iso props=C14,C20,C02 mode=direct unwind=42
job entry=print_fractions props=C14 mode=native bounded=every_count_0..999999999_ns_in_both_modes_(the_whole_domain;_2e9_evaluations)_plus_refusals desc=PrintSecondsFractions<ns>_prints_exactly_the_decimal_digits_of_the_count,_fixed_width_or_without_trailing_zeros,_and_never_writes_behind_the_buffer canary=off
job entry=h_fractions_ms props=C14,C20,C02 mode=direct unwind=18 backend=cvc5int
@*/
