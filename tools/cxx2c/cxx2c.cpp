// cxx2c — mechanical C++ -> C extractor for CBMC (clang 14 libTooling).
// Prints the instantiated, type-resolved AST of the requested functions (and their callee closure inside
// the repository) as GNU C.  Anything outside the supported subset aborts with exit code 2.
#include "clang/AST/ASTConsumer.h"
#include "clang/AST/RecursiveASTVisitor.h"
#include "clang/AST/RecordLayout.h"
#include "clang/AST/CXXInheritance.h"
#include "clang/AST/ParentMapContext.h"
#include "clang/Frontend/CompilerInstance.h"
#include "clang/Frontend/FrontendAction.h"
#include "clang/Tooling/Tooling.h"
#include "clang/Tooling/CommonOptionsParser.h"
#include "llvm/Support/CommandLine.h"
#include "llvm/Support/raw_ostream.h"
#include <deque>
#include <set>
#include <map>
#include <sstream>
#include <fstream>
using namespace clang;

static llvm::cl::OptionCategory cat("cxx2c");
static llvm::cl::list<std::string> Targets("target", llvm::cl::desc("substring of 'qualified::name<targs>(param types)' of functions to extract"), llvm::cl::cat(cat));
static llvm::cl::list<std::string> Outline("outline", llvm::cl::desc("<C-name substring>:<loop ordinal> — outline that loop body"), llvm::cl::cat(cat));
static llvm::cl::list<std::string> AbstractOnly("abstract", llvm::cl::desc("signature substring of repository functions to emit as contract-only declarations"), llvm::cl::cat(cat));
static llvm::cl::list<std::string> RecStub("rec-stub", llvm::cl::desc("signature substring: self-recursive calls inside these functions are emitted as calls to <name>__rec (contract stub)"), llvm::cl::cat(cat));
static llvm::cl::opt<std::string> OutPrefix("o", llvm::cl::desc("output prefix (writes <prefix>.h <prefix>.c <prefix>.json)"), llvm::cl::Required, llvm::cl::cat(cat));
static llvm::cl::opt<bool> AllocRaises("alloc-raises", llvm::cl::desc("treat allocating std members (reserve, resize, push_back, append, ...) as potentially raising std::bad_alloc: an exception check follows each call"), llvm::cl::cat(cat));
static llvm::cl::opt<bool> AllowDtorSkip("allow-dtor-skip", llvm::cl::desc("do not abort on locals with non-trivial repository destructors (listed in json)"), llvm::cl::cat(cat));
static llvm::cl::opt<bool> Inventory("inventory", llvm::cl::desc("only list variables with static storage duration (C19)"), llvm::cl::cat(cat));

#include "part1.inc"
#include "part2.inc"
#include "part3.inc"
#include "part4.inc"

static std::string jsonEsc(const std::string& s) { std::string r; for (char c : s) { if (c == '"' || c == '\\') { r += '\\'; r += c; } else if (c == '\n') r += "\\n"; else if ((unsigned char)c < 0x20) r += ' '; else r += c; } return r; }

class Finder : public RecursiveASTVisitor<Finder> {
public:
  Emitter& E; std::map<std::string, int>& hits; explicit Finder(Emitter& e, std::map<std::string, int>& h) : E(e), hits(h) {}
  bool shouldVisitTemplateInstantiations() const { return true; }
  bool VisitFunctionDecl(FunctionDecl* f) {
    if (!f->isThisDeclarationADefinition() || f->isDependentContext() || f->isDeleted()) return true;
    if (f->getTemplatedKind() == FunctionDecl::TK_FunctionTemplate) return true;
    std::string s = E.sigString(f);
    for (auto& t : Targets) if (s.find(t) != std::string::npos) { hits[t]++; E.need(f); }
    return true;
  }
};

// --inventory (C19): every variable with static storage duration declared in repository files, and every access to a mutable one from a
// function body, classified as read / write / escape by its syntactic context.
class InventoryVisitor : public RecursiveASTVisitor<InventoryVisitor> {
public:
  ASTContext& Ctx; std::vector<std::string> out, acc; std::set<std::string> seenVar, seenAcc; std::vector<const FunctionDecl*> fnStack;
  explicit InventoryVisitor(ASTContext& c) : Ctx(c) {}
  bool shouldVisitTemplateInstantiations() const { return true; }
  bool inRepo(SourceLocation l0, std::string& f, unsigned& line) { auto& SM = Ctx.getSourceManager(); SourceLocation l = SM.getExpansionLoc(l0); f = SM.getFilename(l).str(); line = SM.getSpellingLineNumber(l); return !(f.find("/usr/") == 0 || f.find("/opt/") == 0 || f.empty()); }
  static bool syncType(QualType t) { std::string s = t.getCanonicalType().getAsString(); return s.find("std::atomic") != std::string::npos || s.find("std::mutex") != std::string::npos || s.find("std::once_flag") != std::string::npos || s.find("std::shared_mutex") != std::string::npos; }
  bool isMutableStatic(const VarDecl* v) { if (!v->hasGlobalStorage() || isa<ParmVarDecl>(v)) return false; QualType t = v->getType(); if (t->isReferenceType()) return false; return !(t.isConstQualified() || v->isConstexpr()) && v->getTLSKind() == VarDecl::TLS_None && !syncType(t); }
  bool VisitVarDecl(VarDecl* v) {
    if (!v->hasGlobalStorage() || isa<ParmVarDecl>(v)) return true;
    if (!v->isThisDeclarationADefinition() && !v->isStaticLocal()) return true;
    std::string f; unsigned line; if (!inRepo(v->getLocation(), f, line)) return true;
    QualType t = v->getType();
    bool isConst = t.isConstQualified() || v->isConstexpr();
    bool tls = v->getTLSKind() != VarDecl::TLS_None;
    std::string kind = v->isStaticLocal() ? "static-local" : (v->isStaticDataMember() ? "static-member" : "namespace-scope");
    std::string key = f + ":" + std::to_string(line) + ":" + v->getNameAsString(); if (!seenVar.insert(key).second) return true;   // one entry per declaration site (instantiations collapse)
    std::ostringstream o; o << "{\"name\": \"" << jsonEsc(v->getNameAsString()) << "\", \"type\": \"" << jsonEsc(v->getDeclContext()->isDependentContext() ? std::string("<dependent>") : t.getAsString()) << "\", \"file\": \"" << jsonEsc(f) << "\", \"line\": " << line
      << ", \"const\": " << (isConst ? "true" : "false") << ", \"thread_local\": " << (tls ? "true" : "false") << ", \"sync_type\": " << (syncType(t) ? "true" : "false") << ", \"kind\": \"" << kind << "\"}";
    out.push_back(o.str()); return true;
  }
  bool TraverseFunctionDecl(FunctionDecl* f) { fnStack.push_back(f); bool r = RecursiveASTVisitor::TraverseFunctionDecl(f); fnStack.pop_back(); return r; }
  bool TraverseCXXMethodDecl(CXXMethodDecl* f) { fnStack.push_back(f); bool r = RecursiveASTVisitor::TraverseCXXMethodDecl(f); fnStack.pop_back(); return r; }
  bool TraverseCXXConstructorDecl(CXXConstructorDecl* f) { fnStack.push_back(f); bool r = RecursiveASTVisitor::TraverseCXXConstructorDecl(f); fnStack.pop_back(); return r; }
  bool TraverseCXXDestructorDecl(CXXDestructorDecl* f) { fnStack.push_back(f); bool r = RecursiveASTVisitor::TraverseCXXDestructorDecl(f); fnStack.pop_back(); return r; }
  std::string classify(const Expr* e) {
    // walk up through projections until the context decides
    const Expr* cur = e;
    for (int depth = 0; depth < 12; ++depth) {
      auto ps = Ctx.getParents(*cur); if (ps.empty()) return "other";
      if (auto* p = ps[0].get<ImplicitCastExpr>()) { auto k = p->getCastKind(); if (k == CK_LValueToRValue) return "read"; if (k == CK_NoOp || k == CK_ArrayToPointerDecay || k == CK_DerivedToBase || k == CK_UncheckedDerivedToBase) { if (k == CK_ArrayToPointerDecay && !p->getType()->getPointeeType().isConstQualified()) { cur = p; continue; } cur = p; continue; } return "other"; }
      if (auto* p = ps[0].get<ParenExpr>()) { cur = p; continue; }
      if (auto* p = ps[0].get<MemberExpr>()) { if (p->getBase()->IgnoreParenImpCasts() == cur->IgnoreParenImpCasts() || p->getBase() == cur) { if (isa<CXXMethodDecl>(p->getMemberDecl())) { auto* m = cast<CXXMethodDecl>(p->getMemberDecl()); return m->isConst() || m->isStatic() ? "read" : "write"; } cur = p; continue; } return "other"; }
      if (auto* p = ps[0].get<ArraySubscriptExpr>()) { cur = p; continue; }
      if (auto* p = ps[0].get<UnaryOperator>()) { if (p->isIncrementDecrementOp()) return "write"; if (p->getOpcode() == UO_AddrOf) return "escape"; if (p->getOpcode() == UO_Deref) { cur = p; continue; } return "read"; }
      if (auto* p = ps[0].get<BinaryOperator>()) { if (p->isAssignmentOp()) return p->getLHS()->IgnoreParenImpCasts() == cur->IgnoreParenImpCasts() || p->getLHS() == cur ? "write" : "read"; return "read"; }
      if (auto* p = ps[0].get<CXXOperatorCallExpr>()) { if (p->getNumArgs() && (p->getArg(0) == cur || p->getArg(0)->IgnoreParenImpCasts() == cur->IgnoreParenImpCasts())) { if (p->isAssignmentOp()) return "write"; if (auto* m = dyn_cast_or_null<CXXMethodDecl>(p->getDirectCallee())) return m->isConst() ? "read" : "write"; } return argKind(p, cur); }
      if (auto* p = ps[0].get<CallExpr>()) return argKind(p, cur);
      if (auto* p = ps[0].get<CXXConstructExpr>()) { for (unsigned i = 0; i < p->getNumArgs(); ++i) if (p->getArg(i) == cur) { QualType pt = p->getConstructor()->getParamDecl(i)->getType(); if (!pt->isReferenceType() && !pt->isPointerType()) return "read"; return pt->getPointeeType().isConstQualified() ? "read" : "escape"; } return "other"; }
      if (auto* p = ps[0].get<VarDecl>()) { QualType vt = p->getType(); if (vt->isReferenceType() || vt->isPointerType()) return vt->getPointeeType().isConstQualified() ? "read" : "escape"; return "read"; }
      if (ps[0].get<ReturnStmt>()) { if (!fnStack.empty()) { QualType rt = fnStack.back()->getReturnType(); if (rt->isReferenceType() || rt->isPointerType()) return rt->getPointeeType().isConstQualified() ? "read" : "escape"; } return "read"; }
      if (ps[0].get<IfStmt>() || ps[0].get<ForStmt>() || ps[0].get<WhileStmt>() || ps[0].get<ConditionalOperator>()) return "read";
      return "other";
    }
    return "other";
  }
  std::string argKind(const CallExpr* p, const Expr* cur) {
    auto* fd = p->getDirectCallee(); unsigned off = isa<CXXOperatorCallExpr>(p) && fd && isa<CXXMethodDecl>(fd) ? 1 : 0;
    for (unsigned i = 0; i < p->getNumArgs(); ++i) if (p->getArg(i) == cur) { if (!fd || i < off || i - off >= fd->getNumParams()) return "other"; QualType pt = fd->getParamDecl(i - off)->getType(); if (!pt->isReferenceType() && !pt->isPointerType()) return "read"; return pt->getPointeeType().isConstQualified() ? "read" : "escape"; }
    return "other";
  }
  void note(const VarDecl* v, const Expr* e) {
    if (!v || !isMutableStatic(v)) return; std::string vf; unsigned vl; if (!inRepo(v->getLocation(), vf, vl)) return;
    std::string f; unsigned line; if (!inRepo(e->getExprLoc(), f, line)) return;
    std::string kind = classify(e); std::string fn = fnStack.empty() ? "<static initialiser>" : fnStack.back()->getNameAsString();
    if (!fnStack.empty()) if (auto* md = dyn_cast<CXXMethodDecl>(fnStack.back())) fn = md->getParent()->getNameAsString() + "::" + fn;
    std::string key = vf + ":" + std::to_string(vl) + "|" + f + ":" + std::to_string(line) + "|" + kind; if (!seenAcc.insert(key).second) return;
    std::ostringstream o; o << "{\"var\": \"" << jsonEsc(v->getNameAsString()) << "\", \"var_file\": \"" << jsonEsc(vf) << "\", \"var_line\": " << vl << ", \"function\": \"" << jsonEsc(fn) << "\", \"file\": \"" << jsonEsc(f) << "\", \"line\": " << line << ", \"kind\": \"" << kind << "\"}";
    acc.push_back(o.str());
  }
  bool VisitDeclRefExpr(DeclRefExpr* e) { note(dyn_cast<VarDecl>(e->getDecl()), e); return true; }
  bool VisitMemberExpr(MemberExpr* e) { note(dyn_cast<VarDecl>(e->getMemberDecl()), e); return true; }
};

class Consumer : public ASTConsumer {
public:
  void HandleTranslationUnit(ASTContext& ctx) override {
    if (ctx.getDiagnostics().hasErrorOccurred()) { llvm::errs() << "CXX2C ABORT: the translation unit has compile errors\n"; exit(2); }
    if (Inventory) {
      InventoryVisitor V(ctx); V.TraverseDecl(ctx.getTranslationUnitDecl());
      std::ofstream j(OutPrefix + ".json"); j << "{\"statics\": [\n"; for (size_t i = 0; i < V.out.size(); ++i) j << "  " << V.out[i] << (i + 1 < V.out.size() ? ",\n" : "\n"); j << "],\n\"accesses\": [\n"; for (size_t i = 0; i < V.acc.size(); ++i) j << "  " << V.acc[i] << (i + 1 < V.acc.size() ? ",\n" : "\n"); j << "]}\n"; return;
    }
    Emitter E(ctx); E.allowDtorSkip = AllowDtorSkip; E.allocRaises = AllocRaises;
    for (auto& o : Outline) { auto p = o.rfind(':'); if (p == std::string::npos) { llvm::errs() << "CXX2C ABORT: bad --outline\n"; exit(2); } E.outlineReq.insert({o.substr(0, p), atoi(o.c_str() + p + 1)}); }
    for (auto& a : AbstractOnly) E.abstractOnlyPatterns.insert(a);
    for (auto& a : RecStub) E.recStubPatterns.insert(a);
    std::map<std::string, int> hits; Finder F(E, hits);
    try {
      E.seedWellKnownExceptions();
      F.TraverseDecl(ctx.getTranslationUnitDecl());
      for (auto& t : Targets) if (!hits.count(t)) { llvm::errs() << "CXX2C ABORT: target '" << t << "' matches no function definition (renamed or removed?)\n"; exit(2); }
      while (!E.work.empty() || !E.vwork.empty()) { if (!E.work.empty()) { auto* f = E.work.front(); E.work.pop_front(); E.emitFunction(f); } else { auto* f = E.vwork.front(); E.vwork.pop_front(); E.emitFunction(f, true); } }
    } catch (Abort& a) { llvm::errs() << "CXX2C ABORT: " << a.msg << "\n"; exit(2); }
    for (auto& r : E.outlineReq) { bool found = false; for (auto& fi : E.fnInfos) if (fi.cname.find(r.first) != std::string::npos && (int)fi.loops.size() >= r.second) found = true; if (!found) { llvm::errs() << "CXX2C ABORT: --outline " << r.first << ":" << r.second << " matches no loop\n"; exit(2); } }
    {
      std::ofstream h(OutPrefix + ".h");
      h << "/* generated by cxx2c from the repository's current working tree — do not edit */\n";
      h << E.excTable() << "\n" << E.enums.str() << "\n" << E.structs.str() << "\n" << E.globals.str() << "\n" << E.protos.str() << "\n";
      std::ofstream c(OutPrefix + ".c");
      c << "/* generated by cxx2c from the repository's current working tree — do not edit */\n#ifndef VERIF_MEMCPY\n#define VERIF_MEMCPY memcpy\n#endif\n#ifndef VERIF_MEMMOVE\n#define VERIF_MEMMOVE memmove\n#endif\n" << E.macroDefaults.str() << "\n" << E.defs.str();
      std::ofstream j(OutPrefix + ".json");
      j << "{\n \"functions\": [\n";
      for (size_t i = 0; i < E.fnInfos.size(); ++i) {
        auto& f = E.fnInfos[i];
        j << "  {\"c_name\": \"" << f.cname << "\", \"signature\": \"" << jsonEsc(f.sig) << "\", \"file\": \"" << jsonEsc(f.file) << "\", \"lines\": [" << f.line0 << ", " << f.line1 << "], \"has_body\": " << (f.hasBody ? "true" : "false") << ", \"loops\": [";
        for (size_t k = 0; k < f.loops.size(); ++k) j << (k ? ", " : "") << "\"" << jsonEsc(f.loops[k]) << "\"";
        j << "]}" << (i + 1 < E.fnInfos.size() ? ",\n" : "\n");
      }
      j << " ],\n \"model_calls\": ["; { bool f = true; for (auto& m : E.modelCalls) { j << (f ? "" : ", ") << "\"" << m << "\""; f = false; } } j << "],\n";
      j << " \"model_types\": ["; { bool f = true; for (auto& m : E.stdTypesUsed) { j << (f ? "" : ", ") << "\"" << m << "\""; f = false; } } j << "],\n";
      j << " \"abstract_callees\": ["; { bool f = true; for (auto& m : E.abstractCallees) { j << (f ? "" : ", ") << "\"" << m << "\""; f = false; } } j << "],\n";
      j << " \"mutable_statics\": ["; { bool f = true; for (auto& m : E.mutableStatics) { j << (f ? "" : ", ") << "\"" << jsonEsc(m) << "\""; f = false; } } j << "],\n";
      j << " \"dtor_skipped\": ["; { bool f = true; for (auto& m : E.dtorSkipped) { j << (f ? "" : ", ") << "\"" << jsonEsc(m) << "\""; f = false; } } j << "]\n}\n";
    }
  }
};
class Action : public ASTFrontendAction { public: std::unique_ptr<ASTConsumer> CreateASTConsumer(CompilerInstance&, StringRef) override { return std::make_unique<Consumer>(); } };
int main(int argc, const char** argv) {
  auto op = tooling::CommonOptionsParser::create(argc, argv, cat);
  if (!op) { llvm::errs() << toString(op.takeError()); return 2; }
  tooling::ClangTool tool(op->getCompilations(), op->getSourcePathList());
  int rc = tool.run(tooling::newFrontendActionFactory<Action>().get());
  return rc ? 2 : 0;
}
