#!/bin/sh
# builds /verif/build/cxx2c from /verif/tools/cxx2c (offline; needs clang-14 dev libraries already installed)
set -e
cd "$(dirname "$0")/.."
mkdir -p build
if [ build/cxx2c -nt tools/cxx2c/cxx2c.cpp ] && [ build/cxx2c -nt tools/cxx2c/part1.inc ] && [ build/cxx2c -nt tools/cxx2c/part2.inc ] && [ build/cxx2c -nt tools/cxx2c/part3.inc ] && [ build/cxx2c -nt tools/cxx2c/part4.inc ]; then exit 0; fi
clang++ -std=c++17 -O1 -fno-rtti tools/cxx2c/cxx2c.cpp -o build/cxx2c.tmp -Itools/cxx2c -I/usr/lib/llvm-14/include \
  -D_GNU_SOURCE -D__STDC_CONSTANT_MACROS -D__STDC_FORMAT_MACROS -D__STDC_LIMIT_MACROS \
  /usr/lib/llvm-14/lib/libclang-cpp.so.14 /usr/lib/llvm-14/lib/libLLVM-14.so
mv build/cxx2c.tmp build/cxx2c
