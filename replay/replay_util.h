// Minimal reader for the replay files written by bin/check (no JSON library in the sandbox's C++ toolchain).
#pragma once
#include <cstdint>
#include <cstdio>
#include <cstring>
#include <fstream>
#include <map>
#include <sstream>
#include <string>
struct ReplayDoc {
  std::string text, entry, obligation;
  std::map<std::string, std::string> bin, data;   // inputs: name -> binary / data
  static std::string strField(const std::string& t, const std::string& key, size_t from = 0) {
    size_t p = t.find("\"" + key + "\":", from); if (p == std::string::npos) return "";
    p = t.find('"', p + key.size() + 3); if (p == std::string::npos) return "";
    size_t q = p + 1; std::string r; while (q < t.size() && t[q] != '"') { if (t[q] == '\\' && q + 1 < t.size()) { ++q; } r += t[q++]; } return r;
  }
  bool load(const char* path) {
    std::ifstream f(path); if (!f) return false; std::stringstream ss; ss << f.rdbuf(); text = ss.str();
    entry = strField(text, "entry"); obligation = strField(text, "obligation");
    size_t p = text.find("\"inputs\":"); if (p == std::string::npos) return true;
    size_t end = text.find("\"checker_cmd\"", p);
    // entries look like:  "name": {\n "data": "...",\n "binary": "...",
    size_t cur = p + 9;
    while (true) {
      size_t k = text.find('"', cur); if (k == std::string::npos || k > end) break;
      size_t k2 = text.find('"', k + 1); std::string name = text.substr(k + 1, k2 - k - 1);
      size_t ob = text.find('{', k2); size_t cb = text.find('}', ob); if (ob == std::string::npos || cb == std::string::npos || ob > end) break;
      std::string body = text.substr(ob, cb - ob + 1);
      data[name] = strField(body, "data"); bin[name] = strField(body, "binary");
      cur = cb + 1;
    }
    return true;
  }
  // element k of a byte array captured as name[k] / name[kl]
  bool elem(const std::string& arr, unsigned long long k, unsigned char& out) const {
    for (const char* suf : {"", "l", "ul", "u"}) { std::string key = arr + "[" + std::to_string(k) + suf + "]"; if (has(key)) { out = (unsigned char)u64(key); return true; } }
    return false;
  }
  bool has(const std::string& n) const { return bin.count(n) && !bin.at(n).empty(); }
  uint64_t u64(const std::string& n) const { uint64_t v = 0; auto it = bin.find(n); if (it == bin.end()) return 0; for (char c : it->second) v = (v << 1) | (c == '1'); return v; }
  int64_t i64(const std::string& n) const { auto it = bin.find(n); if (it == bin.end() || it->second.empty()) return 0; uint64_t v = u64(n); size_t w = it->second.size(); if (w < 64 && it->second[0] == '1') v |= ~0ULL << w; return (int64_t)v; }
};
