/* Symbolic MessagePack/byte document with a materialised look-ahead window (see targets/msgpack_sreader/harness.c for the rationale):
   size and read position are symbolic (up to 2^62); only [pos, pos+min(DOCWIN, size-pos)) exists as an object of that symbolic small
   size, the data pointer is the window shifted back by pos.  Accesses outside the window are failed pointer obligations. */
#ifndef VERIF_DOCWIN_H
#define VERIF_DOCWIN_H
#include <stdlib.h>
#ifndef DOCWIN
#define DOCWIN 32
#endif
struct docwin { unsigned char wb[DOCWIN]; unsigned char* win; size_t wlen; const unsigned char* data; size_t size; size_t pos; };
static void docwin_init(struct docwin* d) {
  d->size = nondet_size_t(); __CPROVER_assume(d->size <= ((size_t)1 << 54));   /* documents up to 2^54 bytes (CBMC pointer offsets have 56 bits) */
  d->pos = nondet_size_t(); __CPROVER_assume(d->pos <= d->size);
#ifdef VERIF_SMALL_CE
  __CPROVER_assume(d->size - d->pos <= 4096);   /* only while extracting a counterexample that the native replay can materialise */
#endif
  d->wlen = d->size - d->pos < DOCWIN ? d->size - d->pos : DOCWIN;
  d->win = malloc(d->wlen); __CPROVER_assume(d->win != 0);
  for (unsigned k = 0; k < DOCWIN; k++) d->wb[k] = k < d->wlen ? d->win[k] : 0;   /* named copy so that counterexamples show the bytes */
#pragma CPROVER check push
#pragma CPROVER check disable "pointer-overflow"
  d->data = d->win - d->pos;
#pragma CPROVER check pop
}
#endif
