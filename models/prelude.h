/* prelude: ghost state of the exception lowering + nondet sources (included first by every harness) */
#ifndef VERIF_PRELUDE_H
#define VERIF_PRELUDE_H
#include <stdint.h>
#include <stddef.h>
#include <string.h>
int __verif_exc;          /* 0 = no exception in flight, else EXC_<class> */
int __verif_exc_code;     /* first enum argument of the thrown exception's constructor (SerializationErrorCode, ...) */
int __verif_caught;       /* class caught by the innermost handler (for rethrow) */
int __verif_caught_code;
_Bool nondet_bool(void); char nondet_char(void); unsigned char nondet_uchar(void); signed char nondet_schar(void);
short nondet_short(void); unsigned short nondet_ushort(void); int nondet_int(void); unsigned nondet_uint(void);
long nondet_long(void); unsigned long nondet_ulong(void); float nondet_float(void); double nondet_double(void);
size_t nondet_size_t(void);
#define VERIF_CANARY() __CPROVER_assert(0, "CANARY: end of harness is reachable (must fail)")
#define VERIF_ASSERT(prop, cond, text) __CPROVER_assert(cond, prop ": " text)
#endif
