/* Append-only byte sink: the model of std::string (used append-only) and of std::ostream in the writer proofs.
   Unbounded logical length; the bytes appended since `base` are kept in a window; one bulk append (a block given by
   pointer+length that the harness announced through expect_bulk_ptr) is recorded instead of copied.  Trusted base:
   this is the C++ standard's specification of push_back/append/put/write on a sequence container / unformatted
   output without failure (allocation failure and badbit are outside this model). */
#ifndef VERIF_SINK_H
#define VERIF_SINK_H
#include "models/sv.h"
#define VSINK_WIN 24
typedef struct {
  size_t len;                 /* logical length */
  size_t base;                /* window origin: win[i] is the byte at position base+i */
  unsigned char win[VSINK_WIN];
  const char* expect_bulk_ptr;/* harness: appends from this pointer are recorded, not copied */
  unsigned bulk_count; const char* bulk_ptr; size_t bulk_n; size_t bulk_at;
  unsigned small_ops;         /* number of byte-wise operations */
} vsink;
typedef vsink vstr_c8;
typedef vsink vostream;
static inline void vsink_put(vsink* s, char c) {
  size_t off = s->len - s->base;
  if (off < VSINK_WIN) s->win[off] = (unsigned char)c;
  s->len++; s->small_ops++;
}
static inline void vsink_write(vsink* s, const char* p, size_t n) {
  if (p == s->expect_bulk_ptr) { s->bulk_count++; s->bulk_ptr = p; s->bulk_n = n; s->bulk_at = s->len; s->len += n; return; }
  __CPROVER_assert(n <= 16, "MODEL: byte-wise append is at most 16 bytes");
  for (size_t i = 0; i < n && i < 16; i++) vsink_put(s, p[i]);
}
static inline void vstr_c8_push_back__c8(vstr_c8* s, char c) { vsink_put(s, c); }
static inline vstr_c8* vstr_c8_append__pkc8_u64(vstr_c8* s, const char* p, unsigned long n) { vsink_write(s, p, n); return s; }
static inline vstr_c8* vstr_c8_append_vsv_c8__rkvsv_c8(vstr_c8* s, const vsv_c8* v) { vsink_write(s, v->data, v->size); return s; }
static inline vostream* vostream_put__c8(vostream* s, char c) { vsink_put(s, c); return s; }
static inline vostream* vostream_write__pkc8_i64(vostream* s, const char* p, long n) { __CPROVER_assert(n >= 0, "MODEL: ostream::write count is non-negative"); vsink_write(s, p, (size_t)n); return s; }
#endif
