/* std::optional<T> for scalar T: tagged value */
#ifndef VERIF_OPTIONAL_H
#define VERIF_OPTIONAL_H
#ifndef VERIF_ON_MAKE_OPTIONAL
#define VERIF_ON_MAKE_OPTIONAL(p)
#endif
typedef struct { char __e; } std_nullopt_t;
static const std_nullopt_t m_std_nullopt = {0};
#define VERIF_DEF_OPT(TAG, T) \
typedef struct { _Bool has; T val; } vopt_##TAG; \
static inline vopt_##TAG vopt_##TAG##_ctor__std_nullopt_t(std_nullopt_t n) { (void)n; vopt_##TAG o; o.has = 0; o.val = 0; return o; } \
static inline vopt_##TAG m_std_make_optional_##TAG##_r##TAG##__r##TAG(T* v) { VERIF_ON_MAKE_OPTIONAL(v); vopt_##TAG o; o.has = 1; o.val = *v; return o; } \
static inline _Bool vopt_##TAG##_conv_b___k(const vopt_##TAG* o) { return o->has; } \
static inline _Bool vopt_##TAG##_has_value___k(const vopt_##TAG* o) { return o->has; } \
static inline const T* vopt_##TAG##_op_star___k(const vopt_##TAG* o) { __CPROVER_assert(o->has, "MODEL: optional::operator* on an engaged optional (UB otherwise)"); return &o->val; }
VERIF_DEF_OPT(c8, char)
#endif
