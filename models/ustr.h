/* Append-only model of std::basic_string<C> for the transcoder proofs (C = 8/16/32-bit unit): unbounded logical length, the units
   appended since `base` kept in a window, and a ghost record of "the error mark was appended" (the mark is a caller-supplied
   NUL-terminated string of ghost length mark_len, appended as a whole).  Trusted: the C++ standard's push_back/append semantics
   without allocation failure. */
#ifndef VERIF_USTR_H
#define VERIF_USTR_H
#define USTR_WIN 8
#define VERIF_DEF_USTR(TAG, UNIT) \
typedef struct { size_t len; size_t base; UNIT win[USTR_WIN]; size_t units; const UNIT* mark_ptr; size_t mark_len; size_t marks; size_t last_mark_at; } vstr_##TAG; \
typedef struct { const UNIT* p; size_t n; } std_initializer_list_##TAG; \
static inline void vstr_##TAG##_push_back__##TAG(vstr_##TAG* s, UNIT c) { size_t off = s->len - s->base; if (off < USTR_WIN) s->win[off] = c; s->len++; s->units++; } \
static inline vstr_##TAG* vstr_##TAG##_append__pk##TAG(vstr_##TAG* s, const UNIT* p) { \
  __CPROVER_assert(p == s->mark_ptr && p != 0, "MODEL: the only C string appended by the transcoders is the caller's error mark"); \
  s->marks++; s->last_mark_at = s->len; s->len += s->mark_len; return s; } \
static inline vstr_##TAG* vstr_##TAG##_append__std_initializer_list_##TAG(vstr_##TAG* s, std_initializer_list_##TAG il) { \
  __CPROVER_assert(il.n <= 4, "MODEL: initializer lists of at most 4 units"); for (size_t i = 0; i < il.n && i < 4; i++) vstr_##TAG##_push_back__##TAG(s, il.p[i]); return s; } \
static inline size_t vstr_##TAG##_size___k(const vstr_##TAG* s) { return s->len; } \
static inline void ustr_##TAG##_init(vstr_##TAG* s, const UNIT* mark) { s->len = nondet_size_t(); __CPROVER_assume(s->len < ((size_t)1 << 60)); s->base = s->len; s->units = 0; s->marks = 0; s->last_mark_at = 0; \
  s->mark_ptr = mark; s->mark_len = nondet_size_t(); __CPROVER_assume(s->mark_len < ((size_t)1 << 20)); }
VERIF_DEF_USTR(c8, char)
VERIF_DEF_USTR(c16, uint16_t)
VERIF_DEF_USTR(c32, uint32_t)
#endif
