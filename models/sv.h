/* std::basic_string_view<C>: {data,size}; preconditions of the standard as assertions. */
#ifndef VERIF_SV_H
#define VERIF_SV_H
#define VERIF_DEF_SV(TAG, CH) \
typedef struct { const CH* data; size_t size; } vsv_##TAG; \
static inline size_t vsv_##TAG##_size___k(const vsv_##TAG* s) { return s->size; } \
static inline size_t vsv_##TAG##_length___k(const vsv_##TAG* s) { return s->size; } \
static inline const CH* vsv_##TAG##_data___k(const vsv_##TAG* s) { return s->data; } \
static inline _Bool vsv_##TAG##_empty___k(const vsv_##TAG* s) { return s->size == 0; } \
static inline const CH* vsv_##TAG##_begin___k(const vsv_##TAG* s) { return s->data; } \
static inline const CH* vsv_##TAG##_end___k(const vsv_##TAG* s) { return s->data + s->size; } \
static inline const CH* vsv_##TAG##_cbegin___k(const vsv_##TAG* s) { return s->data; } \
static inline const CH* vsv_##TAG##_cend___k(const vsv_##TAG* s) { return s->data + s->size; } \
static inline const CH* vsv_##TAG##_op_index__u64_k(const vsv_##TAG* s, unsigned long i) { __CPROVER_assert(i < s->size, "MODEL: string_view::operator[] index < size (UB otherwise)"); return &s->data[i]; } \
static inline const CH* vsv_##TAG##_front___k(const vsv_##TAG* s) { __CPROVER_assert(s->size > 0, "MODEL: string_view::front on non-empty view"); return &s->data[0]; } \
static inline const CH* vsv_##TAG##_back___k(const vsv_##TAG* s) { __CPROVER_assert(s->size > 0, "MODEL: string_view::back on non-empty view"); return &s->data[s->size - 1]; } \
static inline vsv_##TAG vsv_##TAG##_ctor__pk##TAG##_u64(const CH* p, unsigned long n) { vsv_##TAG r; r.data = p; r.size = n; return r; } \
static inline vsv_##TAG vsv_##TAG##_ctor(void) { vsv_##TAG r; r.data = 0; r.size = 0; return r; } \
static inline void vsv_##TAG##_remove_prefix__u64(vsv_##TAG* s, unsigned long n) { __CPROVER_assert(n <= s->size, "MODEL: string_view::remove_prefix n <= size (UB otherwise)"); s->data += n; s->size -= n; } \
static inline void vsv_##TAG##_remove_suffix__u64(vsv_##TAG* s, unsigned long n) { __CPROVER_assert(n <= s->size, "MODEL: string_view::remove_suffix n <= size (UB otherwise)"); s->size -= n; }
VERIF_DEF_SV(c8, char)
VERIF_DEF_SV(c16, uint16_t)
VERIF_DEF_SV(c32, uint32_t)
VERIF_DEF_SV(wc, int32_t)
/* string_view(const char*) computes strlen: modelled by a ghost length the harness provides */
size_t verif_cstr_len;
static inline vsv_c8 vsv_c8_ctor__pkc8(const char* p) { vsv_c8 r; r.data = p; r.size = verif_cstr_len; return r; }
#endif
