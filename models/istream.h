/* std::istream as a finite byte source, following [istream.unformatted]:
   read(s,n): sentry (fails -> failbit, gcount 0 when the stream is not good()); delivers k=min(n, size-pos) bytes; k<n sets eofbit|failbit;
   peek(): sentry; at end sets eofbit, returns EOF; seekg(pos): clears eofbit first (C++11), then if fail() does nothing, else positions
   (beyond size -> failbit); gcount(); eof(); fail().  Contents are the uninterpreted function stream_byte(offset); only the byte at the
   ghost offset verif_track is materialised in the destination buffer (every proof is for an arbitrary verif_track, hence for all bytes);
   bytes at other offsets are left unconstrained, which is sound because the code under proof never branches on buffer contents. */
#ifndef VERIF_ISTREAM_H
#define VERIF_ISTREAM_H
typedef struct { _Bool eofbit, failbit, badbit; } vios;
typedef struct { vios __base_basic_ios; size_t size; size_t pos; size_t gcount_; unsigned reads; unsigned seeks; } vistream;
typedef struct { long off; } vfpos;
#ifndef VERIF_ON_STREAM_READ
#define VERIF_ON_STREAM_READ(s, dest, first_offset, count)
#endif
static inline _Bool vios_eof___k(const vios* s) { return s->eofbit; }
static inline _Bool vios_fail___k(const vios* s) { return s->failbit || s->badbit; }
static inline _Bool vios_bad___k(const vios* s) { return s->badbit; }
static inline void vios_clear__Ios_Iostate(vios* s, int state) { s->eofbit = (state & 2) != 0; s->failbit = (state & 4) != 0; s->badbit = (state & 1) != 0; }   /* libstdc++: badbit=1, eofbit=2, failbit=4 */
static inline _Bool vios_good(const vios* s) { return !s->eofbit && !s->failbit && !s->badbit; }
static inline vfpos vfpos_ctor__i64(long off) { vfpos p; p.off = off; return p; }
static inline size_t vistream_gcount___k(const vistream* s) { return s->gcount_; }
static inline vistream* vistream_read__pc8_i64(vistream* s, char* buf, long n) {
  __CPROVER_assert(n >= 0, "MODEL: istream::read count is non-negative");
  s->reads++; s->gcount_ = 0;
  if (!vios_good(&s->__base_basic_ios)) { s->__base_basic_ios.failbit = 1; return s; }
  size_t avail = s->size - s->pos; size_t k = (size_t)n < avail ? (size_t)n : avail;
  if (k > 0) { __CPROVER_assert(__CPROVER_w_ok(buf, k), "MODEL: istream::read destination [buf, buf+k) is writable"); }
  VERIF_ON_STREAM_READ(s, buf, s->pos, k);
  s->pos += k; s->gcount_ = k;
  if (k < (size_t)n) { s->__base_basic_ios.eofbit = 1; s->__base_basic_ios.failbit = 1; }
  return s;
}
static inline int vistream_peek(vistream* s) {
  s->gcount_ = 0;
  if (!vios_good(&s->__base_basic_ios)) { s->__base_basic_ios.failbit = 1; return -1; }
  if (s->pos == s->size) { s->__base_basic_ios.eofbit = 1; return -1; }
  return nondet_uchar();
}
static inline vistream* vistream_seekg__vfpos(vistream* s, vfpos p) {
  s->seeks++;
  s->__base_basic_ios.eofbit = 0;
  if (vios_fail___k(&s->__base_basic_ios)) return s;
  if (p.off < 0 || (size_t)p.off > s->size) { s->__base_basic_ios.failbit = 1; return s; }
  s->pos = (size_t)p.off; return s;
}
#endif
