/* The reader contract of the MessagePack readers, shared VERBATIM by the in-memory reader (target msgpack_sreader) and the stream reader
   (target msgpack_streader): both are proved against the same postconditions over the same independent reference decoder, which is what
   "memory and stream loading are equivalent" (C10) means for MsgPack.  The including harness defines
     PRE              declares `struct doc d` (document window, options, reader), initialises it and decodes `mp_head h` with the reference decoder
     RD(name)         the reader's extracted function  <Class>_<name>
     CURPOS           the reader's logical read position after the call
     STR_DELIVERED(t) "the string view t holds exactly the h.u payload bytes that follow the head"
     g_skip_calls / g_skip_from   ghost of the SkipValueImpl contract stub
     PARSE_ERROR_KEEPS_POSITION   what the reader promises about its position after a ParsingException caused by an ext head cut by the end of
                      the input: the in-memory reader leaves it untouched (CURPOS == d.pos); the stream reader has consumed what it examined (1) */
#ifndef VERIF_MSGPACK_READER_CONTRACT_H
#define VERIF_MSGPACK_READER_CONTRACT_H
#define AT_END (d.pos == d.size)
#define NOTHING_CONSUMED (CURPOS == d.pos && g_skip_calls == 0)
/* common outcomes ------------------------------------------------------------------------------------------------------------- */
/* (a) no byte left: ParsingException, nothing consumed */
#define POST_END(UNCHANGED) \
  VERIF_ASSERT("C07,C20", !AT_END || (__verif_exc == EXC_ParsingException && NOTHING_CONSUMED && (UNCHANGED)), "reading at the end of the document raises ParsingException and leaves target and position untouched");
/* (b) head of the right family cut by the end of the document */
#define POST_TRUNC(FAMOK, UNCHANGED) \
  VERIF_ASSERT("C07,C20", !(!AT_END && (FAMOK) && h.truncated) || (__verif_exc == EXC_ParsingException && (UNCHANGED) && g_skip_calls == 0), "a truncated encoding is rejected with ParsingException, target untouched");
/* (c) value of another family: mismatched-types policy (nil is exempt from ThrowError and skipped) */
/* ext values: a head or payload cut by the end of the document may be reported as ParsingException before the policy is applied.
   (A complete ext value with an empty payload that ends the document must NOT be reported as truncated: fixed finding FX-C07-ext-empty-at-end.) */
#define EXT_CUT (h.family == MPF_EXT && (h.truncated || h.u > d.size - d.pos - h.head_len))
#define POST_MISMATCH(FAMOK, UNCHANGED, RET) \
  VERIF_ASSERT("C04,C05,C07", !(!AT_END && !(FAMOK) && h.family != MPF_NIL && d.opt.mismatchedTypesPolicy == MismatchedTypesPolicy_ThrowError) || \
      (__verif_exc == EXC_SerializationException && __verif_exc_code == SerializationErrorCode_MismatchedTypes && NOTHING_CONSUMED && (UNCHANGED)) || \
      (EXT_CUT && __verif_exc == EXC_ParsingException && PARSE_ERROR_KEEPS_POSITION && g_skip_calls == 0 && (UNCHANGED)), "a value of another kind with policy ThrowError raises SerializationException(MismatchedTypes) (or ParsingException if it is an ext value cut by the end of the document)"); \
  VERIF_ASSERT("C04,C05,C07", !(!AT_END && !(FAMOK) && (h.family == MPF_NIL || d.opt.mismatchedTypesPolicy == MismatchedTypesPolicy_Skip)) || \
      (g_skip_calls == 1 && g_skip_from == d.pos && (UNCHANGED) && (__verif_exc == EXC_ParsingException || (__verif_exc == 0 && (RET) == 0))) || \
      (EXT_CUT && __verif_exc == EXC_ParsingException && PARSE_ERROR_KEEPS_POSITION && g_skip_calls == 0 && (UNCHANGED)), "a value of another kind with policy Skip (or nil) is skipped as exactly one value starting at the read position, reported as not loaded, target untouched");

/* ---- integer / bool / char targets -------------------------------------------------------------------------------------------- */
#define INTFAM (h.family == MPF_UINT || h.family == MPF_NINT || h.family == MPF_BOOL)
#define H_RINT(TAG, CT, NT, TMIN, TMAX) \
void h_read_##TAG(void) { PRE CT t0 = NT(); CT t = t0; \
  _Bool ret = RD(ReadValue__r##TAG)(&d.r, &t); \
  mint v = h.family == MPF_NINT ? (mint)h.s : (mint)h.u; _Bool fits = v >= (mint)(TMIN) && v <= (mint)(TMAX); \
  POST_END(t == t0) POST_TRUNC(INTFAM, t == t0) POST_MISMATCH(INTFAM, t == t0, ret) \
  VERIF_ASSERT("C07,C04", !(!AT_END && INTFAM && !h.truncated && fits) || (__verif_exc == 0 && ret && (mint)t == v && CURPOS == d.pos + h.head_len && g_skip_calls == 0), \
     "every legal integer/bool format width whose value the target can hold loads exactly the value the specification assigns, consuming exactly the head"); \
  VERIF_ASSERT("C04", !(!AT_END && INTFAM && !h.truncated && !fits && d.opt.overflowNumberPolicy == OverflowNumberPolicy_ThrowError) || \
     (__verif_exc == EXC_SerializationException && __verif_exc_code == SerializationErrorCode_Overflow && t == t0), "a value the target cannot hold with policy ThrowError raises SerializationException(Overflow), target untouched"); \
  VERIF_ASSERT("C04,C05", !(!AT_END && INTFAM && !h.truncated && !fits && d.opt.overflowNumberPolicy == OverflowNumberPolicy_Skip) || \
     (__verif_exc == 0 && !ret && t == t0 && CURPOS == d.pos + h.head_len && g_skip_calls == 0), "a value the target cannot hold with policy Skip is reported as not loaded, target untouched, and exactly that value is consumed"); \
  VERIF_CANARY(); }
H_RINT(b, _Bool, nondet_bool, 0, 1)
H_RINT(u8, unsigned char, nondet_uchar, 0, 255)
H_RINT(u16, unsigned short, nondet_ushort, 0, 65535)
H_RINT(u32, unsigned int, nondet_uint, 0, 4294967295LL)
H_RINT(u64, unsigned long, nondet_ulong, 0, (mint)18446744073709551615ULL)
H_RINT(c8, char, nondet_char, -128, 127)
H_RINT(i8, signed char, nondet_schar, -128, 127)
H_RINT(i16, short, nondet_short, -32768, 32767)
H_RINT(i32, int, nondet_int, -2147483648LL, 2147483647LL)
H_RINT(i64, long, nondet_long, (-(mint)9223372036854775807LL - 1), (mint)9223372036854775807LL)

/* ---- nil ------------------------------------------------------------------------------------------------------------------------ */
void h_read_nil(void) { PRE void* t = 0;
  _Bool ret = RD(ReadValue__rnp)(&d.r, &t);
  POST_END(1) POST_MISMATCH(h.family == MPF_NIL, 1, ret)
  VERIF_ASSERT("C07", !(!AT_END && h.family == MPF_NIL) || (__verif_exc == 0 && ret && CURPOS == d.pos + 1 && g_skip_calls == 0), "nil (0xC0) loads into nullptr_t consuming one byte");
  VERIF_CANARY(); }

/* ---- float / double ------------------------------------------------------------------------------------------------------------- */
#define FLTFAM (h.family == MPF_F32 || h.family == MPF_F64)
void h_read_f32(void) { PRE float t0 = nondet_float(); float t = t0; uint32_t b0, b1; memcpy(&b0, &t0, 4);
  _Bool ret = RD(ReadValue__rf32)(&d.r, &t); memcpy(&b1, &t, 4);
  POST_END(b1 == b0) POST_TRUNC(FLTFAM, b1 == b0) POST_MISMATCH(FLTFAM, b1 == b0, ret)
  VERIF_ASSERT("C07", !(!AT_END && h.family == MPF_F32 && !h.truncated) || (__verif_exc == 0 && ret && b1 == (uint32_t)h.u && CURPOS == d.pos + 5), "float32 loads bit-identically into float");
  double dv; uint64_t db = h.u; memcpy(&dv, &db, 8); _Bool finite = f64_is_finite_bits(db); _Bool inr = finite && dv >= -0x1.fffffep+127 && dv <= 0x1.fffffep+127;
  VERIF_ASSERT("C07,C04", !(!AT_END && h.family == MPF_F64 && !h.truncated && inr) || (__verif_exc == 0 && ret && t == (float)dv && CURPOS == d.pos + 9), "an in-range float64 loads into float as the nearest representable value");
  VERIF_ASSERT("C04", !(!AT_END && h.family == MPF_F64 && !h.truncated && finite && !inr && d.opt.overflowNumberPolicy == OverflowNumberPolicy_ThrowError) || (__verif_exc == EXC_SerializationException && __verif_exc_code == SerializationErrorCode_Overflow && b1 == b0), "a float64 beyond the float range with policy ThrowError raises Overflow");
  VERIF_ASSERT("C04,C05", !(!AT_END && h.family == MPF_F64 && !h.truncated && finite && !inr && d.opt.overflowNumberPolicy == OverflowNumberPolicy_Skip) || (__verif_exc == 0 && !ret && b1 == b0 && CURPOS == d.pos + 9), "a float64 beyond the float range with policy Skip is not loaded, target untouched, exactly that value consumed");
  VERIF_CANARY(); }
void h_read_f64(void) { PRE double t0 = nondet_double(); double t = t0; uint64_t b0, b1; memcpy(&b0, &t0, 8);
  _Bool ret = RD(ReadValue__rf64)(&d.r, &t); memcpy(&b1, &t, 8);
  POST_END(b1 == b0) POST_TRUNC(FLTFAM, b1 == b0) POST_MISMATCH(FLTFAM, b1 == b0, ret)
  VERIF_ASSERT("C07", !(!AT_END && h.family == MPF_F64 && !h.truncated) || (__verif_exc == 0 && ret && b1 == h.u && CURPOS == d.pos + 9), "float64 loads bit-identically into double");
  float fv; uint32_t fb = (uint32_t)h.u; memcpy(&fv, &fb, 4);
  VERIF_ASSERT("C07", !(!AT_END && h.family == MPF_F32 && !h.truncated) || (__verif_exc == 0 && ret && CURPOS == d.pos + 5 && ((fv != fv && t != t) || t == (double)fv)), "float32 loads exactly into double");
  VERIF_CANARY(); }

/* ---- strings ---------------------------------------------------------------------------------------------------------------------- */
void h_read_str(void) { PRE vsv_c8 t0; t0.data = (const char*)nondet_size_t(); t0.size = nondet_size_t(); vsv_c8 t = t0;
  _Bool ret = RD(ReadValue__rvsv_c8)(&d.r, &t);
  _Bool same = t.data == t0.data && t.size == t0.size;
  POST_END(same) POST_TRUNC(h.family == MPF_STR, same) POST_MISMATCH(h.family == MPF_STR, same, ret)
  _Bool whole = !AT_END && h.family == MPF_STR && !h.truncated && h.u <= d.size - d.pos - h.head_len;
  VERIF_ASSERT("C07", !whole || (__verif_exc == 0 && ret && STR_DELIVERED(t) && CURPOS == d.pos + h.head_len + h.u), "fixstr/str8/str16/str32 deliver exactly the payload bytes and consume head + payload");
  VERIF_ASSERT("C07,C20", !(!AT_END && h.family == MPF_STR && !h.truncated && !whole) || (__verif_exc == EXC_ParsingException && same), "a string whose payload is cut by the end of the document is rejected with ParsingException");
  VERIF_CANARY(); }

/* ---- container / binary heads ----------------------------------------------------------------------------------------------------- */
#define H_RSIZE(NAME, CALL, FAMILY) \
void h_read_##NAME(void) { PRE size_t t0 = nondet_size_t(); size_t t = t0; \
  _Bool ret = CALL(&d.r, &t); \
  POST_END(t == t0) POST_TRUNC(h.family == FAMILY, t == t0) POST_MISMATCH(h.family == FAMILY, t == t0, ret) \
  VERIF_ASSERT("C07", !(!AT_END && h.family == FAMILY && !h.truncated) || (__verif_exc == 0 && ret && t == h.u && CURPOS == d.pos + h.head_len && g_skip_calls == 0), "every legal header width delivers the element/byte count of the specification and consumes exactly the head"); \
  VERIF_CANARY(); }
H_RSIZE(array, RD(ReadArraySize__ru64), MPF_ARRAY)
H_RSIZE(map, RD(ReadMapSize__ru64), MPF_MAP)
H_RSIZE(bin, RD(ReadBinarySize__ru64), MPF_BIN)

void h_read_binbyte(void) { PRE
  char c = RD(ReadBinary)(&d.r);
  POST_END(1)
  VERIF_ASSERT("C07", AT_END || (__verif_exc == 0 && c == (char)d.wb[0] && CURPOS == d.pos + 1), "ReadBinary delivers the byte at the read position and advances by one");
  VERIF_CANARY(); }

/* ---- timestamps ------------------------------------------------------------------------------------------------------------------- */
static inline _Bool kf_ts96_payload(const mp_head* h) { return h->u == 12; }
#define TSFAM (h.family == MPF_EXT && !h.truncated && h.ext_type == -1)
void h_read_ts(void) { PRE struct CBinTimestamp t0; t0.Seconds = nondet_long(); t0.Nanoseconds = nondet_int(); struct CBinTimestamp t = t0;
  _Bool ret = RD(ReadValue__rCBinTimestamp)(&d.r, &t);
  _Bool same = t.Seconds == t0.Seconds && t.Nanoseconds == t0.Nanoseconds;
  POST_END(same)
  _Bool whole = !AT_END && TSFAM && h.u <= d.size - d.pos - h.head_len;
  mp_ts ref; ref.ok = 0; ref.sec = 0; ref.nsec = 0; if (whole && (h.u == 4 || h.u == 8 || h.u == 12)) ref = mp_ref_timestamp(h.u, d.wb + h.head_len);
  VERIF_ASSERT("C07", !(whole && ref.ok && !kf_ts96_payload(&h)) || (__verif_exc == 0 && ret && t.Seconds == ref.sec && (uint32_t)t.Nanoseconds == ref.nsec && CURPOS == d.pos + h.head_len + h.u), "timestamp 32/64 load to the seconds/nanoseconds of the specification and consume head + payload (96-bit layout: KF-C07-ts96-order)");
  VERIF_ASSERT("C07", !(whole && h.u != 4 && h.u != 8 && h.u != 12) || (__verif_exc != 0 && verif_exc_is_a(__verif_exc, EXC_SerializationException)), "a timestamp extension of a length other than 4, 8 or 12 is rejected");
  VERIF_ASSERT("C07,C20", !(!AT_END && TSFAM && !whole) || ((__verif_exc == EXC_ParsingException || (__verif_exc == EXC_SerializationException && __verif_exc_code == SerializationErrorCode_ParsingError))), "a timestamp cut by the end of the document is rejected with a parsing error (the target may be partly written)");
  VERIF_ASSERT("C07,C20", !(!AT_END && h.family == MPF_EXT && h.truncated) || (__verif_exc == EXC_ParsingException && same), "an ext head cut by the end of the document is rejected with ParsingException");
  _Bool other = !AT_END && !(h.family == MPF_EXT && (h.truncated || h.ext_type == -1));
  VERIF_ASSERT("C04,C05,C07", !(other && h.family != MPF_NIL && d.opt.mismatchedTypesPolicy == MismatchedTypesPolicy_ThrowError && !(h.family == MPF_EXT && h.u > d.size - d.pos - h.head_len)) || (__verif_exc == EXC_SerializationException && __verif_exc_code == SerializationErrorCode_MismatchedTypes && NOTHING_CONSUMED && same), "a non-timestamp value with policy ThrowError raises MismatchedTypes");
  VERIF_ASSERT("C04,C05,C07", !(other && (h.family == MPF_NIL || d.opt.mismatchedTypesPolicy == MismatchedTypesPolicy_Skip) && h.family != MPF_EXT) || (g_skip_calls == 1 && g_skip_from == d.pos && same && (__verif_exc == EXC_ParsingException || (__verif_exc == 0 && !ret))), "a non-timestamp value with policy Skip is skipped as one value and reported as not loaded");
  VERIF_CANARY(); }
void h_kf_read_ts96(void) { PRE struct CBinTimestamp t; t.Seconds = 0; t.Nanoseconds = 0;
  __CPROVER_assume(!AT_END && TSFAM && h.u == 12 && h.u <= d.size - d.pos - h.head_len);
  mp_ts ref = mp_ref_timestamp(12, d.wb + h.head_len); __CPROVER_assume(ref.ok);
  _Bool ret = RD(ReadValue__rCBinTimestamp)(&d.r, &t);
  VERIF_ASSERT("C07", __verif_exc == 0 && ret && t.Seconds == ref.sec && (uint32_t)t.Nanoseconds == ref.nsec, "[KF-C07-ts96-order] timestamp 96 payload is read as nanoseconds(32) then seconds(64) as the specification lays it out"); }

void h_kf_read_ts_nanos(void) { PRE struct CBinTimestamp t; t.Seconds = 0; t.Nanoseconds = 0;
  __CPROVER_assume(!AT_END && TSFAM && (h.u == 8 || h.u == 12) && h.u <= d.size - d.pos - h.head_len);
  mp_ts ref = mp_ref_timestamp(h.u, d.wb + h.head_len); __CPROVER_assume(!ref.ok);
  _Bool ret = RD(ReadValue__rCBinTimestamp)(&d.r, &t);
  VERIF_ASSERT("C07", __verif_exc != 0 && verif_exc_is_a(__verif_exc, EXC_SerializationException), "[KF-C07-ts-nanos-range] a timestamp whose nanoseconds field exceeds 999999999 is rejected"); }

/* ---- value type / position ------------------------------------------------------------------------------------------------------------ */
static inline int ref_value_type(const mp_head* h) {
  switch (h->family) { case MPF_NIL: return ValueType_Nil; case MPF_BOOL: return ValueType_Boolean; case MPF_UINT: return ValueType_UnsignedInteger; case MPF_NINT: return ValueType_SignedInteger;
    case MPF_F32: return ValueType_Float; case MPF_F64: return ValueType_Double; case MPF_STR: return ValueType_String; case MPF_BIN: return ValueType_BinaryArray; case MPF_ARRAY: return ValueType_Array;
    case MPF_MAP: return ValueType_Map; case MPF_EXT: return h->ext_type == -1 ? ValueType_Timestamp : ValueType_Ext; default: return ValueType_Unknown; } }
void h_value_type(void) { PRE
  int vt = RD(ReadValueType)(&d.r);
  POST_END(1)
  VERIF_ASSERT("C07", g_skip_calls == 0 && (CURPOS == d.pos || (__verif_exc == EXC_ParsingException && PARSE_ERROR_KEEPS_POSITION)), "ReadValueType never consumes input (after a ParsingException for a cut ext head the stream reader's position is unspecified)");
  VERIF_ASSERT("C07", !(!AT_END && h.family != MPF_EXT) || (__verif_exc == 0 && vt == ref_value_type(&h)), "the family of every first byte is classified as the specification's format table says (0xC1 = unknown)");
  VERIF_ASSERT("C07", !(!AT_END && h.family == MPF_EXT && !h.truncated && h.u <= d.size - d.pos - h.head_len) || (__verif_exc == 0 && vt == ref_value_type(&h)), "a complete ext value is classified as Timestamp iff its type byte is -1, whatever the width of its length field");
  VERIF_ASSERT("C07,C20", !(!AT_END && h.family == MPF_EXT && h.truncated) || __verif_exc == EXC_ParsingException, "an ext head cut by the end of the document raises ParsingException");
  VERIF_CANARY(); }
#endif
