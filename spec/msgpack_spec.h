/* MessagePack reference (spec oracle), written from the MessagePack specification
   (https://github.com/msgpack/msgpack/blob/master/spec.md), NOT from the repository's code.
   Pure, loop-free C usable both inside CBMC harnesses and natively in the replay drivers.

   A "head" is the first byte plus the fixed-size fields that follow it (length fields, scalar payloads, ext type).
   mp_ref_head() is the reference decoder for heads over a byte window b[0..avail). */
#ifndef VERIF_MSGPACK_SPEC_H
#define VERIF_MSGPACK_SPEC_H
#include <stdint.h>
#include <stddef.h>

enum mp_family { MPF_INVALID = 0, MPF_NIL, MPF_BOOL, MPF_UINT, MPF_NINT /* negative-capable signed family */, MPF_F32, MPF_F64,
                 MPF_STR, MPF_BIN, MPF_ARRAY, MPF_MAP, MPF_EXT };

typedef struct {
  int family;          /* enum mp_family; MPF_INVALID for 0xC1 */
  int truncated;       /* 1: fewer than head_len bytes available */
  unsigned head_len;   /* bytes of the head (1..10 for ext: 1+len field+type byte) */
  uint64_t u;          /* UINT value / BOOL 0|1 / F32,F64 raw IEEE bits / STR,BIN,EXT payload byte length / ARRAY,MAP element count */
  int64_t  s;          /* NINT value */
  int8_t ext_type;     /* EXT: application type */
} mp_head;

static inline uint64_t mp_be(const unsigned char* b, unsigned n) {   /* big-endian unsigned of n<=8 bytes */
  uint64_t v = 0;
  if (n >= 1) v = b[0];
  if (n >= 2) v = (v << 8) | b[1];
  if (n >= 3) v = (v << 8) | b[2];
  if (n >= 4) v = (v << 8) | b[3];
  if (n >= 5) v = (v << 8) | b[4];
  if (n >= 6) v = (v << 8) | b[5];
  if (n >= 7) v = (v << 8) | b[6];
  if (n >= 8) v = (v << 8) | b[7];
  return v;
}

/* length of the head that starts with first byte c (independent of availability) */
static inline unsigned mp_head_len(unsigned char c) {
  if (c <= 0x7f || c >= 0xe0) return 1;                 /* positive / negative fixint */
  if (c >= 0x80 && c <= 0xbf) return 1;                 /* fixmap, fixarray, fixstr */
  switch (c) {
    case 0xc0: case 0xc1: case 0xc2: case 0xc3: return 1;
    case 0xc4: return 2; case 0xc5: return 3; case 0xc6: return 5;          /* bin 8/16/32 */
    case 0xc7: return 3; case 0xc8: return 4; case 0xc9: return 6;          /* ext 8/16/32: len field + type */
    case 0xca: return 5; case 0xcb: return 9;                               /* float 32/64 */
    case 0xcc: return 2; case 0xcd: return 3; case 0xce: return 5; case 0xcf: return 9;   /* uint */
    case 0xd0: return 2; case 0xd1: return 3; case 0xd2: return 5; case 0xd3: return 9;   /* int */
    case 0xd4: case 0xd5: case 0xd6: case 0xd7: case 0xd8: return 2;        /* fixext 1,2,4,8,16: type byte */
    case 0xd9: return 2; case 0xda: return 3; case 0xdb: return 5;          /* str 8/16/32 */
    case 0xdc: return 3; case 0xdd: return 5;                               /* array 16/32 */
    case 0xde: return 3; default: return 5;                                 /* map 16 / map 32 (0xdf) */
  }
}

static inline mp_head mp_ref_head(const unsigned char* b, size_t avail) {
  mp_head h; h.family = MPF_INVALID; h.truncated = 0; h.head_len = 0; h.u = 0; h.s = 0; h.ext_type = 0;
  if (avail == 0) { h.truncated = 1; return h; }
  unsigned char c = b[0];
  h.head_len = mp_head_len(c);
  if (avail < h.head_len) { h.truncated = 1; }
  const unsigned char* p = b + 1;
  if (c <= 0x7f) { h.family = MPF_UINT; h.u = c; return h; }
  if (c >= 0xe0) { h.family = MPF_NINT; h.s = (int64_t)c - 256; return h; }
  if (c <= 0x8f) { h.family = MPF_MAP; h.u = c & 0x0f; return h; }
  if (c <= 0x9f) { h.family = MPF_ARRAY; h.u = c & 0x0f; return h; }
  if (c <= 0xbf) { h.family = MPF_STR; h.u = c & 0x1f; return h; }
  if (c == 0xc0) { h.family = MPF_NIL; return h; }
  if (c == 0xc1) { h.family = MPF_INVALID; return h; }
  if (c == 0xc2) { h.family = MPF_BOOL; h.u = 0; return h; }
  if (c == 0xc3) { h.family = MPF_BOOL; h.u = 1; return h; }
  if (h.truncated) {   /* family is known from the first byte even when the fields are cut */
    if (c >= 0xc4 && c <= 0xc6) h.family = MPF_BIN; else if (c >= 0xc7 && c <= 0xc9) h.family = MPF_EXT;
    else if (c == 0xca) h.family = MPF_F32; else if (c == 0xcb) h.family = MPF_F64; else if (c >= 0xcc && c <= 0xcf) h.family = MPF_UINT;
    else if (c >= 0xd0 && c <= 0xd3) h.family = MPF_NINT; else if (c >= 0xd4 && c <= 0xd8) h.family = MPF_EXT; else if (c >= 0xd9 && c <= 0xdb) h.family = MPF_STR;
    else if (c == 0xdc || c == 0xdd) h.family = MPF_ARRAY; else h.family = MPF_MAP;
    return h;
  }
  switch (c) {
    case 0xc4: h.family = MPF_BIN; h.u = mp_be(p, 1); break;
    case 0xc5: h.family = MPF_BIN; h.u = mp_be(p, 2); break;
    case 0xc6: h.family = MPF_BIN; h.u = mp_be(p, 4); break;
    case 0xc7: h.family = MPF_EXT; h.u = mp_be(p, 1); h.ext_type = (int8_t)p[1]; break;
    case 0xc8: h.family = MPF_EXT; h.u = mp_be(p, 2); h.ext_type = (int8_t)p[2]; break;
    case 0xc9: h.family = MPF_EXT; h.u = mp_be(p, 4); h.ext_type = (int8_t)p[4]; break;
    case 0xca: h.family = MPF_F32; h.u = mp_be(p, 4); break;
    case 0xcb: h.family = MPF_F64; h.u = mp_be(p, 8); break;
    case 0xcc: h.family = MPF_UINT; h.u = mp_be(p, 1); break;
    case 0xcd: h.family = MPF_UINT; h.u = mp_be(p, 2); break;
    case 0xce: h.family = MPF_UINT; h.u = mp_be(p, 4); break;
    case 0xcf: h.family = MPF_UINT; h.u = mp_be(p, 8); break;
    case 0xd0: h.family = MPF_NINT; h.s = (int8_t)(uint8_t)mp_be(p, 1); break;
    case 0xd1: h.family = MPF_NINT; h.s = (int16_t)(uint16_t)mp_be(p, 2); break;
    case 0xd2: h.family = MPF_NINT; h.s = (int32_t)(uint32_t)mp_be(p, 4); break;
    case 0xd3: h.family = MPF_NINT; h.s = (int64_t)mp_be(p, 8); break;
    case 0xd4: h.family = MPF_EXT; h.u = 1; h.ext_type = (int8_t)p[0]; break;
    case 0xd5: h.family = MPF_EXT; h.u = 2; h.ext_type = (int8_t)p[0]; break;
    case 0xd6: h.family = MPF_EXT; h.u = 4; h.ext_type = (int8_t)p[0]; break;
    case 0xd7: h.family = MPF_EXT; h.u = 8; h.ext_type = (int8_t)p[0]; break;
    case 0xd8: h.family = MPF_EXT; h.u = 16; h.ext_type = (int8_t)p[0]; break;
    case 0xd9: h.family = MPF_STR; h.u = mp_be(p, 1); break;
    case 0xda: h.family = MPF_STR; h.u = mp_be(p, 2); break;
    case 0xdb: h.family = MPF_STR; h.u = mp_be(p, 4); break;
    case 0xdc: h.family = MPF_ARRAY; h.u = mp_be(p, 2); break;
    case 0xdd: h.family = MPF_ARRAY; h.u = mp_be(p, 4); break;
    case 0xde: h.family = MPF_MAP; h.u = mp_be(p, 2); break;
    default:   h.family = MPF_MAP; h.u = mp_be(p, 4); break;   /* 0xdf */
  }
  return h;
}

/* is the head an integer, and what mathematical value does it denote (as sign + 64-bit pieces) */
static inline int mp_head_is_int(const mp_head* h) { return h->family == MPF_UINT || h->family == MPF_NINT; }
static inline __int128 mp_head_int_value(const mp_head* h) { return h->family == MPF_UINT ? (__int128)h->u : (__int128)h->s; }

/* "smallest number of bytes" rule of the specification ("serializers SHOULD use the format which represents the data
   in the smallest number of bytes") — minimal head lengths */
static inline unsigned mp_min_int_len(__int128 v) {
  if (v >= 0) { if (v <= 127) return 1; if (v <= 255) return 2; if (v <= 65535) return 3; if (v <= 4294967295LL) return 5; return 9; }
  if (v >= -32) return 1; if (v >= -128) return 2; if (v >= -32768) return 3; if (v >= -2147483648LL) return 5; return 9;
}
static inline unsigned mp_min_str_hdr(uint64_t n)   { return n <= 31 ? 1 : n <= 255 ? 2 : n <= 65535 ? 3 : 5; }
static inline unsigned mp_min_bin_hdr(uint64_t n)   { return n <= 255 ? 2 : n <= 65535 ? 3 : 5; }
static inline unsigned mp_min_array_hdr(uint64_t n) { return n <= 15 ? 1 : n <= 65535 ? 3 : 5; }
static inline unsigned mp_min_map_hdr(uint64_t n)   { return n <= 15 ? 1 : n <= 65535 ? 3 : 5; }

/* Timestamp extension type (-1).  Reference decoding of the payload that follows an EXT head with type -1. */
typedef struct { int ok; int64_t sec; uint32_t nsec; } mp_ts;
static inline mp_ts mp_ref_timestamp(uint64_t payload_len, const unsigned char* p) {
  mp_ts t; t.ok = 0; t.sec = 0; t.nsec = 0;
  if (payload_len == 4) { t.ok = 1; t.sec = (int64_t)mp_be(p, 4); t.nsec = 0; }
  else if (payload_len == 8) { uint64_t d = mp_be(p, 8); t.nsec = (uint32_t)(d >> 34); t.sec = (int64_t)(d & 0x3ffffffffULL); t.ok = t.nsec <= 999999999u; }
  else if (payload_len == 12) { t.nsec = (uint32_t)mp_be(p, 4); t.sec = (int64_t)mp_be(p + 4, 8); t.ok = t.nsec <= 999999999u; }
  return t;
}
/* smallest timestamp format for (sec,nsec), 0<=nsec<=999999999: total encoded bytes (head + payload) */
static inline unsigned mp_min_ts_total(int64_t sec, uint32_t nsec) {
  if (sec >= 0 && ((uint64_t)sec >> 34) == 0) { if (nsec == 0 && ((uint64_t)sec >> 32) == 0) return 6; return 10; }
  return 15;
}
#endif
