/* Exact-representability oracles for arithmetic conversions, independent of the repository's compare-back idiom.
   Integers are compared as __int128 (mathematical integers for every 64-bit type). */
#ifndef VERIF_NUM_SPEC_H
#define VERIF_NUM_SPEC_H
#include <stdint.h>
typedef __int128 mint;   /* mathematical integer wide enough for all 64-bit types */
/* IEEE-754 classification from raw bits (no libm) */
static inline int f32_is_finite_bits(uint32_t b) { return ((b >> 23) & 0xff) != 0xff; }
static inline int f64_is_finite_bits(uint64_t b) { return ((b >> 52) & 0x7ff) != 0x7ff; }
/* is the mathematical integer v exactly representable in binary32 / binary64?
   v = sign * m, m < 2^64: representable iff the span between highest and lowest set bit is <= 24 (53) bits
   (all |v| < 2^64 are far below the exponent limit of either format). */
static inline int mint_fits_fp(mint v, unsigned mant_bits) {
  unsigned __int128 m = v < 0 ? (unsigned __int128)(-v) : (unsigned __int128)v;
  if (m == 0) return 1;
  unsigned hi = 0, lo = 0; int seen = 0;
  for (unsigned i = 0; i < 65; i++) if ((m >> i) & 1) { if (!seen) { lo = i; seen = 1; } hi = i; }
  return hi - lo + 1 <= mant_bits;
}
#endif
