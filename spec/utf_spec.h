/* Unicode reference (spec oracle), written from The Unicode Standard ch. 3 (D90-D92, Table 3-7 "Well-Formed UTF-8 Byte Sequences"),
   NOT from the repository's code.  Loop-free; usable in CBMC harnesses and natively. */
#ifndef VERIF_UTF_SPEC_H
#define VERIF_UTF_SPEC_H
#include <stdint.h>
#include <stddef.h>
static inline int uni_is_scalar(uint32_t c) { return c <= 0x10FFFF && !(c >= 0xD800 && c <= 0xDFFF); }

enum { U_OK = 0, U_TRUNC = 1, U_BAD = 2 };
typedef struct { int kind; unsigned len; uint32_t scalar; } ustep;   /* len: units of the well-formed sequence (U_OK) */

static inline int u8_cont(unsigned char b) { return b >= 0x80 && b <= 0xBF; }
/* classify the code unit sequence starting at p with avail (>=1) units available */
static inline ustep utf8_ref(const unsigned char* p, size_t avail) {
  ustep r; r.kind = U_BAD; r.len = 0; r.scalar = 0;
  unsigned char b0 = p[0];
  if (b0 <= 0x7F) { r.kind = U_OK; r.len = 1; r.scalar = b0; return r; }
  unsigned need; unsigned char lo1 = 0x80, hi1 = 0xBF;
  if (b0 >= 0xC2 && b0 <= 0xDF) need = 2;
  else if (b0 >= 0xE0 && b0 <= 0xEF) { need = 3; if (b0 == 0xE0) lo1 = 0xA0; if (b0 == 0xED) hi1 = 0x9F; }
  else if (b0 >= 0xF0 && b0 <= 0xF4) { need = 4; if (b0 == 0xF0) lo1 = 0x90; if (b0 == 0xF4) hi1 = 0x8F; }
  else return r;                                         /* C0, C1, F5..FF, 80..BF cannot start a sequence */
  if (avail < 2) { r.kind = U_TRUNC; return r; }
  if (!(p[1] >= lo1 && p[1] <= hi1)) return r;
  if (need == 2) { r.kind = U_OK; r.len = 2; r.scalar = ((uint32_t)(b0 & 0x1F) << 6) | (p[1] & 0x3F); return r; }
  if (avail < 3) { r.kind = U_TRUNC; return r; }
  if (!u8_cont(p[2])) return r;
  if (need == 3) { r.kind = U_OK; r.len = 3; r.scalar = ((uint32_t)(b0 & 0x0F) << 12) | ((uint32_t)(p[1] & 0x3F) << 6) | (p[2] & 0x3F); return r; }
  if (avail < 4) { r.kind = U_TRUNC; return r; }
  if (!u8_cont(p[3])) return r;
  r.kind = U_OK; r.len = 4; r.scalar = ((uint32_t)(b0 & 0x07) << 18) | ((uint32_t)(p[1] & 0x3F) << 12) | ((uint32_t)(p[2] & 0x3F) << 6) | (p[3] & 0x3F); return r;
}
/* length a UTF-8 lead byte announces in the historical scheme (RFC 2279: also 5- and 6-byte forms); 1 for bytes that cannot lead */
static inline unsigned utf8_declared_len(unsigned char b0) {
  if (b0 >= 0xC0 && b0 <= 0xDF) return 2; if (b0 >= 0xE0 && b0 <= 0xEF) return 3; if (b0 >= 0xF0 && b0 <= 0xF7) return 4;
  if (b0 >= 0xF8 && b0 <= 0xFB) return 5; if (b0 >= 0xFC && b0 <= 0xFD) return 6; return 1;
}
/* UTF-16 (D91): single non-surrogate unit, or high surrogate followed by low surrogate */
static inline ustep utf16_ref(const uint16_t* p, size_t avail) {
  ustep r; r.kind = U_BAD; r.len = 0; r.scalar = 0;
  uint16_t u0 = p[0];
  if (u0 < 0xD800 || u0 > 0xDFFF) { r.kind = U_OK; r.len = 1; r.scalar = u0; return r; }
  if (u0 >= 0xDC00) return r;                             /* lone low surrogate */
  if (avail < 2) { r.kind = U_TRUNC; return r; }
  if (p[1] >= 0xDC00 && p[1] <= 0xDFFF) { r.kind = U_OK; r.len = 2; r.scalar = 0x10000 + (((uint32_t)(u0 & 0x3FF)) << 10 | (p[1] & 0x3FF)); return r; }
  return r;                                               /* high surrogate not followed by a low surrogate: only the high one is ill-formed */
}
static inline ustep utf32_ref(const uint32_t* p, size_t avail) { ustep r; (void)avail; r.len = 1; r.scalar = p[0]; r.kind = uni_is_scalar(p[0]) ? U_OK : U_BAD; if (r.kind == U_BAD) r.len = 0; return r; }

/* encoders (D90-D92): number of units and the units themselves */
typedef struct { unsigned n; uint32_t u[4]; } uenc;
static inline uenc utf8_enc(uint32_t c) { uenc e; e.u[0] = e.u[1] = e.u[2] = e.u[3] = 0;
  if (c < 0x80) { e.n = 1; e.u[0] = c; }
  else if (c < 0x800) { e.n = 2; e.u[0] = 0xC0 | (c >> 6); e.u[1] = 0x80 | (c & 0x3F); }
  else if (c < 0x10000) { e.n = 3; e.u[0] = 0xE0 | (c >> 12); e.u[1] = 0x80 | ((c >> 6) & 0x3F); e.u[2] = 0x80 | (c & 0x3F); }
  else { e.n = 4; e.u[0] = 0xF0 | (c >> 18); e.u[1] = 0x80 | ((c >> 12) & 0x3F); e.u[2] = 0x80 | ((c >> 6) & 0x3F); e.u[3] = 0x80 | (c & 0x3F); }
  return e; }
static inline uenc utf16_enc(uint32_t c) { uenc e; e.u[0] = e.u[1] = e.u[2] = e.u[3] = 0;
  if (c < 0x10000) { e.n = 1; e.u[0] = c; } else { e.n = 2; e.u[0] = 0xD800 | ((c - 0x10000) >> 10); e.u[1] = 0xDC00 | ((c - 0x10000) & 0x3FF); } return e; }
static inline uenc utf32_enc(uint32_t c) { uenc e; e.n = 1; e.u[0] = c; e.u[1] = e.u[2] = e.u[3] = 0; return e; }
#endif
