/* Abstract view of BitSerializer::Detail::CBinaryStreamReader used by every proof that calls it: stream contents = a document of symbolic
   size (g_docdata/g_docsize, only the look-ahead window is materialised), logical position g_spos.  Each stub is one of the postconditions
   proved for the real class in target bin_stream_reader (ReadByte/PeekByte/GotoNextByte/ReadSolidBlock/ReadByChunks/SetPosition/IsEnd).
   Block pointers are only compared, never dereferenced beyond the window. */
#ifndef VERIF_BINSTREAM_VIEW_H
#define VERIF_BINSTREAM_VIEW_H
static const unsigned char* g_docdata; static size_t g_docsize, g_spos;
static size_t g_view_off; static const char* g_view_ptr;   /* ghost: document offset / pointer of the block handed out last */
#pragma CPROVER check push
#pragma CPROVER check disable "pointer-overflow"
#pragma CPROVER check disable "pointer"
static inline const char* doc_ptr(size_t off) { return (const char*)g_docdata + off; }
#pragma CPROVER check pop
#endif
#if defined(VERIF_BINSTREAM_VIEW_STUBS) && !defined(VERIF_BINSTREAM_VIEW_STUBS_DONE)
#define VERIF_BINSTREAM_VIEW_STUBS_DONE
/* (needs gen.h: struct CBinaryStreamReader, vopt_c8, vsv_c8, vistream) */
/* ---- abstract view of CBinaryStreamReader (each line is a postcondition proved in bin_stream_reader) ---- */
#define CHUNK 256
unsigned long CBinaryStreamReader_GetPosition___k(const struct CBinaryStreamReader* r) { return g_spos; }
_Bool CBinaryStreamReader_IsEnd___k(const struct CBinaryStreamReader* r) { _Bool e = nondet_bool(); __CPROVER_assume(!e || g_spos == g_docsize); return e; }   /* IsEnd implies position == size */
vopt_c8 CBinaryStreamReader_PeekByte(struct CBinaryStreamReader* r) { vopt_c8 o; o.has = g_spos < g_docsize; o.v = o.has ? (char)g_docdata[g_spos] : 0; return o; }
vopt_c8 CBinaryStreamReader_ReadByte(struct CBinaryStreamReader* r) { vopt_c8 o; o.has = g_spos < g_docsize; o.v = o.has ? (char)g_docdata[g_spos] : 0; if (o.has) g_spos++; return o; }
void CBinaryStreamReader_GotoNextByte(struct CBinaryStreamReader* r) { if (g_spos < g_docsize) g_spos++; }
vsv_c8 CBinaryStreamReader_ReadSolidBlock__u64(struct CBinaryStreamReader* r, unsigned long n) { vsv_c8 v; v.data = 0; v.size = 0;
  if (n > 0 && n <= CHUNK && n <= g_docsize - g_spos) { v.data = doc_ptr(g_spos); v.size = n; g_view_off = g_spos; g_view_ptr = v.data; g_spos += n; } return v; }
vsv_c8 CBinaryStreamReader_ReadByChunks__u64(struct CBinaryStreamReader* r, unsigned long rem) { vsv_c8 v; v.data = 0; v.size = 0;
  if (g_spos < g_docsize && rem > 0) { size_t k = nondet_size_t(); __CPROVER_assume(k >= 1 && k <= rem && k <= g_docsize - g_spos && k <= CHUNK); v.data = doc_ptr(g_spos); v.size = k; g_view_off = g_spos; g_view_ptr = v.data; g_spos += k; } return v; }
_Bool CBinaryStreamReader_SetPosition__u64(struct CBinaryStreamReader* r, unsigned long p) { if (p > g_docsize) return 0; g_spos = p; return 1; }
void CBinaryStreamReader_ctor__rvistream(struct CBinaryStreamReader* r, vistream* s) { g_spos = 0; }
#endif
